// instr rewrites a scratch copy of the grpcgcp module so that every source of
// nondeterminism is owned by the simulation kernel (DESIGN.md §3). The rules
// are generic and type-directed, not line- or name-based, so they keep working
// on edited sources.
//
//	R1/R2/R5  import swap: sync -> xsync, sync/atomic -> xatomic, time -> xtime
//	R3        go f(x)            -> { tmp := f, x; vsync.Go0(func(){ tmp(x) }) }
//	R4        select {...}       -> switch c0, c1 := vsync.Recv(..), ..; vsync.Select(hasDefault, c0, c1) {...}
//	R6        for k, v := range m (m a map) -> for it, k, v := vsync.RangeKV(m); it.NextKV(&k, &v); {...}
//	R7        in the file declaring GCPMultiEndpoint: *grpc.ClientConn -> vsync.PoolConn, grpc.Dial -> vsync.Dial
//
// usage: instr <module dir> ; prints a JSON report on stdout; exit 2 on failure.
package main

import (
	"bytes"
	"encoding/json"
	"fmt"
	"go/ast"
	"go/format"
	"go/token"
	"go/types"
	"os"
	"path/filepath"
	"sort"
	"strconv"

	"golang.org/x/tools/go/ast/astutil"
	"golang.org/x/tools/go/packages"
)

type report struct {
	Files         []string       `json:"files"`
	Rewrites      map[string]int `json:"rewrites"`
	Untransformed []string       `json:"untransformed"`
}

var rep = report{Rewrites: map[string]int{}}

func die(format string, a ...any) {
	fmt.Fprintf(os.Stderr, "instr: "+format+"\n", a...)
	os.Exit(2)
}

var swaps = map[string][2]string{
	"sync":        {"verif.local/vsync/xsync", "sync"},
	"sync/atomic": {"verif.local/vsync/xatomic", "atomic"},
	"time":        {"verif.local/vsync/xtime", "time"},
}

func main() {
	if len(os.Args) < 2 {
		die("usage: instr <module dir> [pattern...]")
	}
	dir := os.Args[1]
	patterns := os.Args[2:]
	if len(patterns) == 0 {
		patterns = []string{".", "./multiendpoint"}
	}
	cfg := &packages.Config{
		Mode: packages.NeedName | packages.NeedFiles | packages.NeedCompiledGoFiles | packages.NeedSyntax |
			packages.NeedTypes | packages.NeedTypesInfo | packages.NeedImports | packages.NeedDeps,
		Dir:   dir,
		Tests: false,
		Env:   os.Environ(),
	}
	pkgs, err := packages.Load(cfg, patterns...)
	if err != nil {
		die("load: %v", err)
	}
	for _, p := range pkgs {
		for _, e := range p.Errors {
			die("package %s: %v", p.PkgPath, e)
		}
	}
	for _, p := range pkgs {
		for i, f := range p.Syntax {
			name := p.CompiledGoFiles[i]
			rewriteFile(p, f, name)
		}
	}
	sort.Strings(rep.Files)
	out, _ := json.Marshal(rep)
	fmt.Println(string(out))
}

type rewriter struct {
	p       *packages.Package
	f       *ast.File
	name    string
	needV   bool
	counter int
	poolSeam bool
}

func (r *rewriter) fresh(prefix string) string {
	r.counter++
	return fmt.Sprintf("_v%s%d", prefix, r.counter)
}

func sel(pkg, name string) ast.Expr {
	return &ast.SelectorExpr{X: ast.NewIdent(pkg), Sel: ast.NewIdent(name)}
}

func (r *rewriter) vs(name string) ast.Expr {
	r.needV = true
	return sel("vsync", name)
}

func rewriteFile(p *packages.Package, f *ast.File, name string) {
	r := &rewriter{p: p, f: f, name: name}
	base := filepath.Base(name)

	// R7 applies to the file declaring type GCPMultiEndpoint.
	for _, d := range f.Decls {
		if gd, ok := d.(*ast.GenDecl); ok && gd.Tok == token.TYPE {
			for _, s := range gd.Specs {
				if ts := s.(*ast.TypeSpec); ts.Name.Name == "GCPMultiEndpoint" {
					r.poolSeam = true
				}
			}
		}
	}

	// R1/R2/R5 import swap.
	for _, is := range f.Imports {
		path, _ := strconv.Unquote(is.Path.Value)
		if sw, ok := swaps[path]; ok {
			is.Path.Value = strconv.Quote(sw[0])
			if is.Name == nil {
				is.Name = ast.NewIdent(sw[1])
			}
			rep.Rewrites["import:"+path]++
		}
	}

	astutil.Apply(f, nil, func(c *astutil.Cursor) bool {
		switch n := c.Node().(type) {
		case *ast.GoStmt:
			c.Replace(r.goStmt(n))
			rep.Rewrites["go"]++
		case *ast.SelectStmt:
			if s := r.selectStmt(n); s != nil {
				c.Replace(s)
				rep.Rewrites["select"]++
			}
		case *ast.RangeStmt:
			if s := r.rangeStmt(n); s != nil {
				c.Replace(s)
				rep.Rewrites["maprange"]++
			}
		case *ast.StarExpr:
			if r.poolSeam && r.isGrpcSel(n.X, "ClientConn") {
				c.Replace(r.vs("PoolConn"))
				rep.Rewrites["poolconn"]++
			}
		case *ast.CallExpr:
			if r.poolSeam && r.isGrpcSel(n.Fun, "Dial") {
				n.Fun = r.vs("Dial")
				rep.Rewrites["dial"]++
			}
		}
		return true
	})

	if r.needV {
		astutil.AddNamedImport(p.Fset, f, "vsync", "verif.local/vsync")
	}
	// If the swap of grpc-only usages left an import unused the compiler will
	// say so; we do not guess.
	f.Comments = nil
	// Drop doc comments attached to nodes as well (positions are stale).
	ast.Inspect(f, func(n ast.Node) bool {
		switch d := n.(type) {
		case *ast.GenDecl:
			d.Doc = nil
		case *ast.FuncDecl:
			d.Doc = nil
		case *ast.Field:
			d.Doc, d.Comment = nil, nil
		case *ast.TypeSpec:
			d.Doc, d.Comment = nil, nil
		case *ast.ValueSpec:
			d.Doc, d.Comment = nil, nil
		case *ast.ImportSpec:
			d.Doc, d.Comment = nil, nil
		}
		return true
	})
	f.Doc = nil
	var buf bytes.Buffer
	buf.WriteString("//go:build go1.21\n\n")
	if err := format.Node(&buf, p.Fset, f); err != nil {
		die("print %s: %v", name, err)
	}
	// Re-format from text so that stale positions cannot produce odd layout.
	src, err := format.Source(buf.Bytes())
	if err != nil {
		die("format %s: %v\n%s", name, err, buf.String())
	}
	if err := os.WriteFile(name, src, 0o644); err != nil {
		die("write %s: %v", name, err)
	}
	rep.Files = append(rep.Files, base)
}

func (r *rewriter) isGrpcSel(e ast.Expr, name string) bool {
	se, ok := e.(*ast.SelectorExpr)
	if !ok || se.Sel.Name != name {
		return false
	}
	id, ok := se.X.(*ast.Ident)
	if !ok {
		return false
	}
	if pn, ok := r.p.TypesInfo.Uses[id].(*types.PkgName); ok {
		return pn.Imported().Path() == "google.golang.org/grpc"
	}
	return false
}

// ---------------------------------------------------------------- R3

func (r *rewriter) goStmt(n *ast.GoStmt) ast.Stmt {
	call := n.Call
	info := r.p.TypesInfo
	var lhs []ast.Expr
	var rhs []ast.Expr
	newCall := &ast.CallExpr{Fun: call.Fun, Ellipsis: call.Ellipsis}
	hoistFun := true
	if tv, ok := info.Types[call.Fun]; ok && (tv.IsType() || tv.IsBuiltin()) {
		hoistFun = false
	}
	if _, isLit := call.Fun.(*ast.FuncLit); isLit && len(call.Args) == 0 {
		// go func(){...}() : exact as is.
		return &ast.ExprStmt{X: &ast.CallExpr{Fun: r.vs("Go0"), Args: []ast.Expr{call.Fun}}}
	}
	if hoistFun {
		id := r.fresh("gf")
		lhs = append(lhs, ast.NewIdent(id))
		rhs = append(rhs, call.Fun)
		newCall.Fun = ast.NewIdent(id)
	}
	for _, a := range call.Args {
		tv, ok := info.Types[a]
		if !ok || tv.Value != nil || tv.IsNil() || tv.IsType() {
			newCall.Args = append(newCall.Args, a) // constants, nil, type arguments stay inline
			continue
		}
		if b, ok := tv.Type.(*types.Basic); ok && b.Info()&types.IsUntyped != 0 {
			newCall.Args = append(newCall.Args, a)
			continue
		}
		id := r.fresh("ga")
		lhs = append(lhs, ast.NewIdent(id))
		rhs = append(rhs, a)
		newCall.Args = append(newCall.Args, ast.NewIdent(id))
	}
	body := &ast.BlockStmt{}
	if len(lhs) > 0 {
		body.List = append(body.List, &ast.AssignStmt{Lhs: lhs, Tok: token.DEFINE, Rhs: rhs})
	}
	lit := &ast.FuncLit{Type: &ast.FuncType{Params: &ast.FieldList{}}, Body: &ast.BlockStmt{List: []ast.Stmt{&ast.ExprStmt{X: newCall}}}}
	body.List = append(body.List, &ast.ExprStmt{X: &ast.CallExpr{Fun: r.vs("Go0"), Args: []ast.Expr{lit}}})
	return body
}

// ---------------------------------------------------------------- R4

func (r *rewriter) selectStmt(n *ast.SelectStmt) ast.Stmt {
	var lhs, rhs, args []ast.Expr
	hasDefault := false
	sw := &ast.SwitchStmt{Body: &ast.BlockStmt{}}
	idx := 0
	for _, cl := range n.Body.List {
		cc := cl.(*ast.CommClause)
		if cc.Comm == nil {
			hasDefault = true
			sw.Body.List = append(sw.Body.List, &ast.CaseClause{List: nil, Body: cc.Body})
			continue
		}
		id := r.fresh("sc")
		var prologue []ast.Stmt
		switch s := cc.Comm.(type) {
		case *ast.SendStmt:
			lhs = append(lhs, ast.NewIdent(id))
			rhs = append(rhs, &ast.CallExpr{Fun: r.vs("Send"), Args: []ast.Expr{s.Chan, s.Value}})
		case *ast.ExprStmt:
			u, ok := unparen(s.X).(*ast.UnaryExpr)
			if !ok || u.Op != token.ARROW {
				rep.Untransformed = append(rep.Untransformed, r.pos(n)+": select clause of unknown form")
				return nil
			}
			lhs = append(lhs, ast.NewIdent(id))
			rhs = append(rhs, &ast.CallExpr{Fun: r.vs("Recv"), Args: []ast.Expr{u.X}})
		case *ast.AssignStmt:
			u, ok := unparen(s.Rhs[0]).(*ast.UnaryExpr)
			if !ok || u.Op != token.ARROW {
				rep.Untransformed = append(rep.Untransformed, r.pos(n)+": select clause of unknown form")
				return nil
			}
			lhs = append(lhs, ast.NewIdent(id))
			rhs = append(rhs, &ast.CallExpr{Fun: r.vs("Recv"), Args: []ast.Expr{u.X}})
			fields := []string{"V", "OK"}
			var l2, r2 []ast.Expr
			for i, l := range s.Lhs {
				if isBlank(l) {
					continue
				}
				l2 = append(l2, l)
				r2 = append(r2, &ast.SelectorExpr{X: ast.NewIdent(id), Sel: ast.NewIdent(fields[i])})
			}
			if len(l2) > 0 {
				prologue = append(prologue, &ast.AssignStmt{Lhs: l2, Tok: s.Tok, Rhs: r2})
			}
		default:
			rep.Untransformed = append(rep.Untransformed, r.pos(n)+": select clause of unknown form")
			return nil
		}
		args = append(args, ast.NewIdent(id))
		sw.Body.List = append(sw.Body.List, &ast.CaseClause{
			List: []ast.Expr{&ast.BasicLit{Kind: token.INT, Value: strconv.Itoa(idx)}},
			Body: append(prologue, cc.Body...),
		})
		idx++
	}
	hd := "false"
	if hasDefault {
		hd = "true"
	} else {
		// a select whose clauses all end in return (or panic, ...) is a terminating
		// statement; the switch standing in for it is one only with a default
		// clause. Select never returns anything but a clause index.
		sw.Body.List = append(sw.Body.List, &ast.CaseClause{List: nil, Body: []ast.Stmt{
			&ast.ExprStmt{X: &ast.CallExpr{Fun: ast.NewIdent("panic"), Args: []ast.Expr{&ast.BasicLit{Kind: token.STRING, Value: `"vsync.Select: no such clause"`}}}},
		}})
	}
	if len(lhs) > 0 {
		sw.Init = &ast.AssignStmt{Lhs: lhs, Tok: token.DEFINE, Rhs: rhs}
	}
	sw.Tag = &ast.CallExpr{Fun: r.vs("Select"), Args: append([]ast.Expr{ast.NewIdent(hd)}, args...)}
	return sw
}

func unparen(e ast.Expr) ast.Expr {
	for {
		p, ok := e.(*ast.ParenExpr)
		if !ok {
			return e
		}
		e = p.X
	}
}

func isBlank(e ast.Expr) bool {
	id, ok := e.(*ast.Ident)
	return ok && id.Name == "_"
}

func (r *rewriter) pos(n ast.Node) string {
	p := r.p.Fset.Position(n.Pos())
	return fmt.Sprintf("%s:%d", filepath.Base(p.Filename), p.Line)
}

// ---------------------------------------------------------------- R6

func (r *rewriter) rangeStmt(n *ast.RangeStmt) ast.Stmt {
	tv, ok := r.p.TypesInfo.Types[n.X]
	if !ok {
		return nil
	}
	if _, isMap := tv.Type.Underlying().(*types.Map); !isMap {
		if tp, ok := tv.Type.(*types.TypeParam); ok {
			_ = tp
			rep.Untransformed = append(rep.Untransformed, r.pos(n)+": range over a type parameter")
		}
		return nil
	}
	hasK := n.Key != nil && !isBlank(n.Key)
	hasV := n.Value != nil && !isBlank(n.Value)
	it := r.fresh("mr")
	itID := func() ast.Expr { return ast.NewIdent(it) }
	addr := func(e ast.Expr) ast.Expr { return &ast.UnaryExpr{Op: token.AND, X: e} }
	var ctor, next string
	var nextArgs []ast.Expr
	switch {
	case hasK && hasV:
		ctor, next = "RangeKV", "NextKV"
		nextArgs = []ast.Expr{addr(n.Key), addr(n.Value)}
	case hasK:
		ctor, next = "RangeK", "NextK"
		nextArgs = []ast.Expr{addr(n.Key)}
	case hasV:
		ctor, next = "RangeV", "NextV"
		nextArgs = []ast.Expr{addr(n.Value)}
	default:
		ctor, next = "RangeN", "NextN"
	}
	fs := &ast.ForStmt{Body: n.Body}
	if n.Tok == token.DEFINE && (hasK || hasV) {
		lhs := []ast.Expr{itID()}
		if hasK {
			lhs = append(lhs, n.Key)
		}
		if hasV {
			lhs = append(lhs, n.Value)
		}
		fs.Init = &ast.AssignStmt{Lhs: lhs, Tok: token.DEFINE, Rhs: []ast.Expr{&ast.CallExpr{Fun: r.vs(ctor), Args: []ast.Expr{n.X}}}}
	} else {
		// assignment form or no variables: the iteration variables already exist.
		fs.Init = &ast.AssignStmt{Lhs: []ast.Expr{itID()}, Tok: token.DEFINE, Rhs: []ast.Expr{&ast.CallExpr{Fun: r.vs("RangeN"), Args: []ast.Expr{n.X}}}}
	}
	fs.Cond = &ast.CallExpr{Fun: &ast.SelectorExpr{X: itID(), Sel: ast.NewIdent(next)}, Args: nextArgs}
	return fs
}
