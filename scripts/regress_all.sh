#!/bin/bash
# usage: scripts/regress_all.sh [id-glob]   (from /verif or a snapshot of it)
# Re-runs the quick check of every kept seeded change's own property against the change, each in a scratch
# worktree of /repo at the change's base commit (so /repo itself is never touched), and prints one line per change.
# A change that was found once and is not found now is a regression of the machinery.
cd "$(dirname "$0")/.."; V=$PWD
[ -x bin/instr ] || ./scripts/setup.sh >/dev/null 2>&1
pat=${1:-*}
for d in seeded/$pat/; do
  id=$(basename $d); [ -f $d/patch.diff ] || continue
  read prop base < <(python3 -c "import json;m=json.load(open('$d/meta.json'));print(m.get('property','?'),m.get('base_commit') or 'HEAD')")
  W=/tmp/regress-$$-$id; rm -rf $W; git -C /repo worktree prune
  if git -C /repo apply --check $V/$d/patch.diff 2>/dev/null; then base=HEAD; fi
  git -C /repo worktree add -q --detach $W $base 2>/dev/null || { echo "$id $prop SKIP (no worktree at $base)"; continue; }
  if ! git -C $W apply $V/$d/patch.diff 2>/dev/null; then echo "$id $prop SKIP (patch does not apply at $base)"; git -C /repo worktree remove --force $W; continue; fi
  out=$(VERIF_REPO=$W VERIF_EVIDENCE_DIR=/tmp/regress-evidence-$$ VERIF_BUDGET_S=${VERIF_BUDGET_S:-15} VERIF_WORKERS=${VERIF_WORKERS:-16} ./check $prop quick 2>&1); rc=$?
  echo "$id $prop exit=$rc $(echo "$out" | grep -m1 -E "^VIOLATION|^HARNESS|^BUILD" | sed 's/replay=[^ ]* //' | cut -c1-150)"
  git -C /repo worktree remove --force $W
done
rm -rf /tmp/regress-evidence-$$ $V/replays/*
