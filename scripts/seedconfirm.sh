#!/bin/bash
# usage: seedconfirm.sh <worktree> <pkg subdir for the demo, e.g. grpcgcp or grpcgcp/multiendpoint> [skip-e2e]
# Confirms a seeded change: existing tests pass with it, the demo fails with it and passes without it.
W=$1; PKG=$2; SKIP=$3
export GOFLAGS=-mod=mod GOPROXY=off GOSUMDB=off
cd $W || exit 2
git checkout -q -- . ; git clean -fdq -e OUT
git apply OUT/patch.diff || { echo "CONFIRM: patch does not apply"; exit 1; }
(cd grpcgcp && go build ./... ) || { echo "CONFIRM: does not compile"; git checkout -q -- .; exit 1; }
(cd grpcgcp && go test -vet=off -count=1 . ./multiendpoint >/tmp/confirm_unit.log 2>&1) && echo "CONFIRM: unit tests pass with change" || { echo "CONFIRM: unit tests FAIL with change"; tail -20 /tmp/confirm_unit.log; }
if [ -z "$SKIP" ]; then
  ok=0; for i in 1 2 3; do (cd grpcgcp && go test -vet=off -count=1 ./test_grpc/ >/tmp/confirm_e2e.log 2>&1) && { ok=1; break; }; done
  [ $ok = 1 ] && echo "CONFIRM: e2e tests pass with change" || { echo "CONFIRM: e2e tests FAIL with change (3 tries)"; grep -E "^--- FAIL|panic" /tmp/confirm_e2e.log | head; }
fi
cp OUT/demo_test.go $PKG/zz_demo_test.go
names=$(grep -oE "^func (Test[A-Za-z0-9_]+)" OUT/demo_test.go | awk '{print $2}' | paste -sd'|')
(cd $PKG && go test -vet=off -count=1 -run "^($names)\$" . >/tmp/confirm_demo1.log 2>&1) && echo "CONFIRM: demo PASSES with change (bad)" || echo "CONFIRM: demo fails with change (good): $(grep -m1 -E -- '--- FAIL|panic:' /tmp/confirm_demo1.log)"
git checkout -q -- .
(cd $PKG && go test -vet=off -count=1 -run "^($names)\$" . >/tmp/confirm_demo2.log 2>&1) && echo "CONFIRM: demo passes without change (good)" || { echo "CONFIRM: demo FAILS without change (bad)"; tail -5 /tmp/confirm_demo2.log; }
rm -f $PKG/zz_demo_test.go
