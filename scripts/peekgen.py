#!/usr/bin/env python3
"""usage: peekgen.py <scratch grpcgcp dir>
Adds zz_verif_peek.go to the (already instrumented) scratch copy of package grpcgcp: an exported
accessor for what the interceptors hand to the picker through the call context, so the harness can
judge C12's "hands the request and reply objects to the picker" / "first message visible to the picker"
directly. Nothing is added to /repo. If the tree under test no longer has the unexported identifiers
the accessor relies on (refactoring), a stub is generated instead and the oracle reports itself as
unsupported rather than breaking the build."""
import os, re, sys
d = sys.argv[1]
src = ""
for f in os.listdir(d):
    if f.endswith(".go") and not f.startswith("zz_verif"):
        src += open(os.path.join(d, f)).read() + "\n"
ok = bool(re.search(r"\btype\s+gcpContext\s+struct\b", src)) and bool(re.search(r"\breqMsg\s+interface\s*\{\s*\}", src)) \
    and bool(re.search(r"\breplyMsg\s+interface\s*\{\s*\}", src)) and bool(re.search(r"\bgcpKey\b", src))
if ok:
    body = '''
// VerifPeekSupported: the accessor below is real.
const VerifPeekSupported = true

// VerifPeekGCPContext returns the request and reply objects the picker will
// find in ctx (scratch copy only; never part of the repository).
func VerifPeekGCPContext(ctx context.Context) (req, reply interface{}, ok bool) {
	g, ok := ctx.Value(gcpKey).(*gcpContext)
	if !ok || g == nil {
		return nil, nil, false
	}
	return g.reqMsg, g.replyMsg, true
}
'''
else:
    body = '''
// VerifPeekSupported: the tree under test has no gcpContext{reqMsg, replyMsg}/gcpKey any more.
const VerifPeekSupported = false

func VerifPeekGCPContext(ctx context.Context) (req, reply interface{}, ok bool) { return nil, nil, false }
'''
open(os.path.join(d, "zz_verif_peek.go"), "w").write("//go:build go1.21\n\npackage grpcgcp\n\nimport \"context\"\n" + body)
print("peek:" + ("real" if ok else "stub"))
