#!/usr/bin/env python3
"""Mechanical mutation sweep (sensitivity of the machinery, DESIGN §18).

  scripts/mutsweep.py <stride> <offset> [budget_s] [file-substring]

Enumerates the mutations bin/mutate knows for the library's source files, takes every <stride>-th one
(starting at <offset>), applies it in a scratch worktree of /repo's HEAD, and classifies it:
  nocompile        the mutated tree does not build
  killed-by-tests  the repository's own unit tests (. and ./multiendpoint) fail
  detected         the simulation (all engines and profiles, 16 workers, <budget_s> seconds, no shrinking)
                   reports a violation signature that is not a listed known finding, or a worker hangs/dies
  survived         nothing noticed it (equivalent mutant, or a blind spot)
One JSON line per mutation on stdout. /repo itself is never touched.
"""
import importlib.machinery, importlib.util, json, os, subprocess, sys, tempfile, time, shutil

VERIF = os.path.dirname(os.path.dirname(os.path.abspath(__file__)))
stride, offset = int(sys.argv[1]), int(sys.argv[2])
budget = int(sys.argv[3]) if len(sys.argv) > 3 else 12
only = sys.argv[4] if len(sys.argv) > 4 else ""
W = tempfile.mkdtemp(prefix="mutsweep-")
os.rmdir(W)
subprocess.run(["git", "-C", "/repo", "worktree", "prune"])
subprocess.run(["git", "-C", "/repo", "worktree", "add", "-q", "--detach", W, "HEAD"], check=True)
os.environ["VERIF_REPO"] = W
loader = importlib.machinery.SourceFileLoader("vcheck", os.path.join(VERIF, "check"))
spec = importlib.util.spec_from_loader("vcheck", loader)
vc = importlib.util.module_from_spec(spec)
loader.exec_module(vc)
NPROC = int(os.environ.get("VERIF_WORKERS", "16"))
GOENV = dict(os.environ, GOFLAGS="-mod=mod", GOPROXY="off", GOSUMDB="off")
FILES = os.environ.get("MUT_FILES", "").split() or ["gcp_balancer.go", "gcp_picker.go", "gcp_interceptor.go", "gcp_multiendpoint.go", "multiendpoint/multiendpoint.go"]
ALLOC = [("poolsim", p, 35) for p in vc.POOL_PROFILES] + [("mesim", "me0", 20), ("mesim", "med", 20), ("mesim", "me", 20),
                                                          ("gmesim", "gme", 25), ("gmesim", "gmebad", 20), ("streamsim", "stream", 50)]
if NPROC < len(ALLOC):
    # fewer workers than (engine, profile) pairs: every engine first
    ALLOC = [("streamsim", "stream", 50), ("gmesim", "gmebad", 20), ("gmesim", "gme", 25), ("mesim", "me", 20)] + [a for a in ALLOC if a[0] == "poolsim"] + ALLOC
known = {k["sig"] for k in vc.load_known().get("findings", [])}
mut = os.path.join(VERIF, "bin", "mutate")


def simulate(seed):
    scratch = vc.Scratch()
    try:
        binp, _ = vc.build(scratch)
        if binp is None:
            return "harness-build-error", {}
        sigfile = os.path.join(scratch.dir, "known.txt")
        open(sigfile, "w").write("\n".join(sorted(known)) + "\n")
        procs = []
        for i in range(NPROC):
            eng, prof, conc = ALLOC[i % len(ALLOC)]
            out = os.path.join(scratch.dir, "frag%d.json" % i)
            env = dict(vc.ENV, SIM_ENGINE=eng, SIM_PROFILE=prof, SIM_PROP="ANY", SIM_SEED=str(seed * 1000 + i), SIM_BUDGET="%ds" % budget, SIM_OUT=out,
                       SIM_CONC=str(conc), SIM_REPLAY_DIR=os.path.join(scratch.dir, "rp"), SIM_KNOWN_SIGS=sigfile, SIM_SHRINK="0s", SIM_WATCHDOG="20s",
                       SIM_AVOID="early_probe,recv_ctx_end")
            lf = open(os.path.join(scratch.dir, "w%d.log" % i), "w")
            p = subprocess.Popen(["bash", "-c", "ulimit -v 8000000; exec %s -test.run TestSim -test.cpu 1 -test.timeout 0" % binp], env=env, stdout=lf, stderr=subprocess.STDOUT)
            procs.append((p, out, lf, eng, prof))
        sigs = {}
        for (p, out, lf, eng, prof) in procs:
            try:
                p.wait(timeout=budget + 120)
            except subprocess.TimeoutExpired:
                p.kill()
                sigs["worker-timeout|" + eng] = 1
            lf.close()
            if p.returncode not in (0, None):
                sigs["worker-exit-%s|%s/%s" % (p.returncode, eng, prof)] = sigs.get("worker-exit", 0) + 1
            try:
                fr = json.load(open(out))
            except Exception:
                continue
            for h in fr.get("harness") or []:
                sigs["harness|" + eng] = sigs.get("harness|" + eng, 0) + 1
            for d in (fr.get("other_sigs") or {}, {v["sig"]: v["count"] for v in fr.get("violations") or []}):
                for s, n in d.items():
                    if s not in known:
                        sigs[s] = sigs.get(s, 0) + n
        return ("detected" if sigs else "survived"), sigs
    finally:
        scratch.cleanup()


n = 0
try:
    for f in FILES:
        if only and only not in f:
            continue
        path = os.path.join(W, "grpcgcp", f)
        lst = subprocess.run([mut, "list", path], capture_output=True, text=True).stdout.splitlines()
        for line in lst:
            idx, ln, kind, desc = line.split("\t", 3)
            n += 1
            if (n - 1) % stride != offset:
                continue
            rec = {"file": f, "index": int(idx), "line": int(ln), "kind": kind, "desc": desc}
            src = subprocess.run([mut, "apply", path, idx], capture_output=True, text=True)
            if src.returncode != 0:
                continue
            orig = open(path).read()
            open(path, "w").write(src.stdout)
            try:
                t0 = time.time()
                r = subprocess.run(["go", "build", "./..."], cwd=os.path.join(W, "grpcgcp"), env=GOENV, capture_output=True, text=True)
                if r.returncode != 0:
                    rec["result"] = "nocompile"
                else:
                    try:
                        r = subprocess.run(["go", "test", "-vet=off", "-count=1", ".", "./multiendpoint"], cwd=os.path.join(W, "grpcgcp"), env=GOENV, capture_output=True, text=True, timeout=45)
                        ok = r.returncode == 0
                    except subprocess.TimeoutExpired:
                        ok = False
                    if not ok:
                        rec["result"] = "killed-by-tests"
                    else:
                        res, sigs = simulate(1 + n)
                        rec["result"] = res
                        rec["sigs"] = dict(sorted(sigs.items(), key=lambda x: -x[1])[:4])
                rec["wall_s"] = round(time.time() - t0, 1)
            finally:
                open(path, "w").write(orig)
            print(json.dumps(rec), flush=True)
finally:
    subprocess.run(["git", "-C", "/repo", "worktree", "remove", "--force", W])
    shutil.rmtree(W, ignore_errors=True)
