#!/bin/bash
# The repository's pinned test suite with the guard OFF. There are no hooks in
# /repo (instrumentation happens on a scratch copy at check time), so this is
# simply the baseline command of /root/.vp/BASELINE.json.
for m in $(cat /w/out/gomods.txt); do MF=$(cd /repo/$m && . /w/out/goenv.sh && gomodflag); (cd /repo/$m && go test $MF -json -vet=off -count=1 -timeout 25m ./...); done
