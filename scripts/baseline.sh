#!/bin/bash
# Runs the repository's pinned test suite with the guard OFF (there are no
# hooks in /repo: instrumentation happens on a scratch copy at check time).
cd /repo/grpcgcp && go test -vet=off -count=1 -timeout 25m ./... && cd /repo/spanner_prober && go test -vet=off -count=1 ./... 
