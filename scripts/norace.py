#!/usr/bin/env python3
"""Insert //go:norace above every top-level func in the given Go files that does
not have it yet. Harness code that runs on task goroutines must be invisible to
the race detector (DESIGN §7 C10); over-annotation is harmless."""
import re, sys
for p in sys.argv[1:]:
    lines = open(p).read().split('\n')
    out = []
    for i, l in enumerate(lines):
        if l.startswith('func '):
            j = len(out) - 1
            has = False
            while j >= 0 and out[j].startswith('//'):
                if out[j].strip() == '//go:norace':
                    has = True
                j -= 1
            if not has:
                if out and out[-1].startswith('//'):
                    out.append('//')
                out.append('//go:norace')
        out.append(l)
    open(p, 'w').write('\n'.join(out))
