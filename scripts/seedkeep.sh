#!/bin/bash
# usage: seedkeep.sh <worktree dir> <id> <property>  -> copies OUT/* to /verif/seeded/<id>/ and writes meta.json skeleton
W=$1; id=$2; prop=$3
mkdir -p /verif/seeded/$id
cp $W/OUT/patch.diff $W/OUT/demo_test.go /verif/seeded/$id/
cp $W/OUT/README.md /verif/seeded/$id/README.md
python3 - "$id" "$prop" <<'PY'
import json,sys
id,prop=sys.argv[1],sys.argv[2]
readme=open('/verif/seeded/%s/README.md'%id).read()
json.dump({"id":id,"property":prop,"origin":"independent sub-agent given only the property text and a scratch worktree","needs":"see README.md","confirmed":"scripts/seedconfirm.sh: existing unit tests pass with the change, demo fails with it and passes without it","checks_run":[]},open('/verif/seeded/%s/meta.json'%id,'w'),indent=1)
PY
