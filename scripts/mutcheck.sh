#!/bin/bash
# usage: scripts/mutcheck.sh <file under grpcgcp/> <mutation index> <property...>
# Applies one mechanical mutation (bin/mutate) in a scratch worktree of /repo's HEAD and runs the quick checks of
# the given properties against it (triage of survivors of scripts/mutsweep.py).
cd "$(dirname "$0")/.."; f=$1; idx=$2; shift; shift
W=/tmp/mutcheck-$$; git -C /repo worktree prune; git -C /repo worktree add -q --detach $W HEAD || exit 2
./bin/mutate apply $W/grpcgcp/$f $idx > $W/grpcgcp/$f.new && mv $W/grpcgcp/$f.new $W/grpcgcp/$f
echo "mutation: $(./bin/mutate list /repo/grpcgcp/$f | awk -F'\t' -v i=$idx '$1==i')"
for p in "$@"; do
  out=$(VERIF_REPO=$W VERIF_EVIDENCE_DIR=/tmp/mutcheck-evidence VERIF_BUDGET_S=${VERIF_BUDGET_S:-20} ./check $p quick 2>&1); rc=$?
  echo "$p exit=$rc $(echo "$out" | grep -m1 -E "^VIOLATION|^HARNESS|^BUILD" | sed 's/replay=[^ ]* //' | cut -c1-220)"
done
git -C /repo worktree remove --force $W; rm -rf /tmp/mutcheck-evidence
