module verif.local/genalias

go 1.26
