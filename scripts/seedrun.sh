#!/bin/bash
# usage: scripts/seedrun.sh <seeded id> <property...>   applies seeded/<id>/patch.diff to /repo, runs the
# quick checks of the given properties (VERIF_BUDGET_S default 12), restores /repo. Prints one line per check.
id=$1; shift
cd /verif
git -C /repo diff --quiet || { echo "/repo dirty"; exit 2; }
git -C /repo apply /verif/seeded/$id/patch.diff || { echo "patch does not apply"; exit 2; }
for p in "$@"; do
  out=$(VERIF_EVIDENCE_DIR=/tmp/seed-evidence VERIF_BUDGET_S=${VERIF_BUDGET_S:-12} ./check $p quick 2>&1); rc=$?
  echo "$id $p exit=$rc $(echo "$out" | grep -m2 -E "^VIOLATION|^HARNESS|^BUILD" | cut -c1-260 | tr '\n' ' ')"
done
git -C /repo checkout -- .
