#!/bin/bash
# usage: scripts/seedrun.sh <seeded id> <property...>
# Runs the quick checks of the given properties (VERIF_BUDGET_S default 12) against the seeded change
# seeded/<id>/patch.diff. If the patch applies to /repo's HEAD it is applied there and undone straight
# afterwards; otherwise a scratch worktree of the change's base_commit (meta.json) is used through VERIF_REPO.
# Evidence goes to /tmp/seed-evidence so /verif/evidence keeps describing the unchanged tree.
id=$1; shift
cd /verif
git -C /repo diff --quiet || { echo "/repo dirty"; exit 2; }
W=""
if git -C /repo apply --check /verif/seeded/$id/patch.diff 2>/dev/null; then
  git -C /repo apply /verif/seeded/$id/patch.diff
  REPO=/repo
else
  base=$(python3 -c "import json;print(json.load(open('/verif/seeded/$id/meta.json')).get('base_commit',''))")
  [ -n "$base" ] || { echo "patch does not apply and no base_commit"; exit 2; }
  W=/tmp/mut/run-$id; rm -rf $W; git -C /repo worktree prune
  git -C /repo worktree add -q --detach $W $base || exit 2
  git -C $W apply /verif/seeded/$id/patch.diff || { echo "patch does not apply to base $base"; git -C /repo worktree remove --force $W; exit 2; }
  REPO=$W
fi
for p in "$@"; do
  out=$(VERIF_REPO=$REPO VERIF_EVIDENCE_DIR=/tmp/seed-evidence VERIF_BUDGET_S=${VERIF_BUDGET_S:-12} ./check $p quick 2>&1); rc=$?
  echo "$id $p exit=$rc $(echo "$out" | grep -m2 -E "^VIOLATION|^HARNESS|^BUILD" | cut -c1-260 | tr '\n' ' ')"
done
if [ -n "$W" ]; then git -C /repo worktree remove --force $W; else git -C /repo checkout -- .; fi
