#!/bin/bash
# Build the framework offline from files on disk: the instrumenter, and warm the
# go1.26.8 build cache (std, race std, harness dependencies) so that the first
# check does not pay for it.
set -e
cd "$(dirname "$0")/.."
export GOFLAGS=-mod=mod GOPROXY=off GOSUMDB=off GOTOOLCHAIN=local
mkdir -p bin evidence replays
(cd instr && go1.26.8 build -o ../bin/instr .)
(cd mutate && go1.26.8 build -o ../bin/mutate .)
./check build race
echo setup ok
