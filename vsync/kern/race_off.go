//go:build !race

package kern

//go:norace
func raceOff() {}

//go:norace
func raceOn() {}

const RaceBuild = false
