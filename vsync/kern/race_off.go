//go:build !race

package kern

//go:norace
func raceOff() {}

//go:norace
func raceOn() {}

const RaceBuild = false

func HBRelease(addr *int32) {}
func HBAcquire(addr *int32) {}
