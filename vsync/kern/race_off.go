//go:build !race

package kern

func raceOff() {}
func raceOn()  {}

const RaceBuild = false
