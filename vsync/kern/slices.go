package kern

// Push and RemoveAt replace append/copy for slices shared between goroutines:
// the runtime's growslice/slicecopy carry race-detector hooks even when called
// from //go:norace functions, and kernel/harness bookkeeping must stay
// invisible to the detector.

//go:norace
func Push[T any](s []T, v T) []T {
	if len(s) == cap(s) {
		n := make([]T, len(s), 2*cap(s)+4)
		for i := range s {
			n[i] = s[i]
		}
		s = n
	}
	s = s[:len(s)+1]
	s[len(s)-1] = v
	return s
}

//go:norace
func RemoveAt[T any](s []T, i int) []T {
	for j := i; j+1 < len(s); j++ {
		s[j] = s[j+1]
	}
	var zero T
	s[len(s)-1] = zero
	return s[:len(s)-1]
}
