// Package kern is the deterministic token-passing scheduler ("simulation
// kernel") that every engine runs on.
//
// Exactly one task (or the scheduler itself) executes at any instant. Tasks are
// real goroutines parked on their own channel and released one at a time; after
// every release the scheduler waits for quiescence of the synctest bubble and
// then inspects each task's self-recorded state. Every decision (next task,
// timer order, map order, select order) is taken through a Chooser, so a run is
// a pure function of (plan, decision list, code).
//
// All functions that touch kernel state are //go:norace: under the race
// detector the kernel must contribute neither happens-before edges (hand-off
// channel operations run inside RaceDisable regions, see race.go) nor reports.
package kern

import (
	"fmt"
	"runtime"
	"strings"
	"sync/atomic"
	"testing/synctest"
	"time"
)

// Beats moves every 16384 scheduling decisions of any kernel of the process:
// a run that is long but alive differs from a loop without a yield point.
var Beats atomic.Uint64

// State of a task as recorded by the task itself before it parks.
type State int32

const (
	Parked        State = iota // at a yield point, runnable
	Running                    // holds the token
	BlockedLock                // waiting for a vsync mutex
	BlockedCond                // waiting on a vsync cond
	BlockedSelect              // in a vsync select with no ready case
	BlockedSleep               // in a vsync sleep
	BlockedWait                // waiting for a harness/fake-environment signal
	BlockedReal                // released, did not reach a yield: blocked in a real primitive
	Done
)

//go:norace
func (s State) String() string {
	switch s {
	case Parked:
		return "parked"
	case Running:
		return "running"
	case BlockedLock:
		return "blocked-lock"
	case BlockedCond:
		return "blocked-cond"
	case BlockedSelect:
		return "blocked-select"
	case BlockedSleep:
		return "blocked-sleep"
	case BlockedWait:
		return "blocked-wait"
	case BlockedReal:
		return "blocked-real"
	case Done:
		return "done"
	}
	return "?"
}

// Task is one schedulable activity.
type Task struct {
	ID    int
	Name  string
	Group int // tasks sharing a non-zero group run strictly one after another in ID order
	Tag   any // harness data

	state    State
	wake     chan struct{}
	Site     string
	Steps    int
	YieldsOp int // yields since the harness last reset it (per-operation spin budget)

	waitLock  any    // *Mutex / *RWMutex the task is blocked on
	waitWrite bool   // blocked as writer
	polledAt  uint64 // kernel version at the last failed select poll
	selCases  []SelCase
	selFired  int
	signaled  bool // cond / waiter signalled

	locks []any // kernel locks currently owned (writer) or read-held, in acquisition order

	PanicVal   any
	PanicStack string
	Leaked     []string // locks still held when the task function returned
	goid       int64
	Prio       int    // free for strategies (PCT)
	Key        uint64 // schedule-independent identity (operation id + creation ordinal): what tapes record
	children   uint64
	Held       bool // not runnable until the harness releases it (fired-but-not-run timer callbacks)
	Handoff    bool // parked at a lock operation while other tasks want that lock (see Mutex.Lock)
	BlockNote  string
}

// State: plain (norace) access. The hand-off channel and synctest.Wait order
// these accesses in reality; the race detector must not see an atomic here, or
// the scheduler would acquire every task's clock at every step and relay it.
//
//go:norace
//go:norace
func (t *Task) State() State { return t.state }

//go:norace
func (t *Task) setState(s State) { t.state = s }

// Chooser takes every nondeterministic decision of a run.
type Chooser interface {
	// Task returns the index into cands of the task to release next. cands is
	// ordered: the task that ran last (if runnable) first, then by task id.
	Task(cands []*Task) int
	// N returns a number in [0,n) for any other decision kind.
	N(kind string, n int) int
}

// Failure is a property-relevant condition detected by the kernel itself.
type Failure struct {
	Kind  string // relock | deadlock | lockleak | spin | panic | harness
	Msg   string
	Task  string
	Site  string
	Stack string
}

type abortSentinel struct{}

// Kernel is one simulated run.
type Kernel struct {
	ch      Chooser
	tasks   []*Task
	live    []*Task // tasks that have not finished (and finished ones not yet compacted away), in ID order
	nDone   int     // finished tasks still in live
	running *Task
	last    *Task
	nReal   int

	steps    uint64
	version  uint64 // bumped by every step that is not a failed select poll, and by clock advances
	MaxSteps uint64
	OpYields int // per-operation yield budget (0 = unlimited)

	aborting bool
	Fail     *Failure

	// TickNs: nanoseconds the clock read by instrumented code moves with every
	// reading (0: it stands still between scheduler sleeps); see xtime.Now
	TickNs int64
	ticks  int64
	// MonoTimes / WallSkew: see xtime.Now (clock readings with a monotonic part;
	// the wall clock alone can be stepped)
	MonoTimes bool
	WallSkew  time.Duration

	timers   []*Timer
	timerSeq int
	stops    []time.Time
	start    time.Time

	// Coverage.
	Switches    int // context switches: a step by a task different from the previous one while that one was still runnable
	SwitchInOp  int
	Fingerprint uint64 // FNV-1a over the (task, site) sequence
	SiteCount   map[string]int
	LogOn       bool
	Log         []string
	VerifyGoid  bool
	Foreign     int

	groupSync [64]int32 // happens-before chain per serial group (one logical goroutine)

	// KeyHint, when non-zero, is the Key of the next task the harness spawns.
	KeyHint  uint64
	rootKeys uint64

	// OnSpawn is called (in the spawning task) for every task created through Go.
	OnSpawn func(parent, child *Task)
}

var cur atomic.Pointer[Kernel]

// Cur returns the installed kernel or nil (pass-through mode).
//
//go:norace
func Cur() *Kernel { return cur.Load() }

// Tick counts one more clock reading and returns the offset to add to it.
// Only the running task reads the clock (one task runs at a time).
//
//go:norace
func (k *Kernel) Tick() int64 {
	k.ticks += k.TickNs
	return k.ticks
}

// New creates a kernel; Install makes it the kernel the vsync wrappers talk to.
//
//go:norace
func New(ch Chooser) *Kernel {
	return &Kernel{ch: ch, MaxSteps: 200000, Fingerprint: 14695981039346656037, SiteCount: map[string]int{}, start: time.Now()}
}

//go:norace
func (k *Kernel) Install() { cur.Store(k) }

//go:norace
func (k *Kernel) Uninstall() { cur.CompareAndSwap(k, nil) }

//go:norace
func (k *Kernel) Steps() uint64 { return k.steps }

//go:norace
func (k *Kernel) Tasks() []*Task { return k.tasks }

//go:norace
func (k *Kernel) Aborting() bool { return k.aborting }

//go:norace
func (k *Kernel) logf(format string, a ...any) {
	if k.LogOn {
		k.Log = Push(k.Log, fmt.Sprintf(format, a...))
	}
}

// Logf appends a line to the event log (harness use); never draws a decision.
//
//go:norace
func (k *Kernel) Logf(format string, a ...any) { k.logf(format, a...) }

//go:norace
func goid() int64 {
	var buf [64]byte
	n := runtime.Stack(buf[:], false)
	// "goroutine 123 ["
	var id int64
	for i := len("goroutine "); i < n; i++ {
		c := buf[i]
		if c < '0' || c > '9' {
			break
		}
		id = id*10 + int64(c-'0')
	}
	return id
}

// Me returns the task executing the caller, or nil for a goroutine the kernel
// does not schedule (scheduler goroutine, foreign goroutines).
//
//go:norace
func (k *Kernel) Me() *Task {
	if k.nReal == 0 && !k.VerifyGoid {
		return k.running
	}
	g := goid()
	if r := k.running; r != nil && r.goid == g {
		return r
	}
	for _, t := range k.tasks {
		if t.goid == g {
			return t
		}
	}
	return nil
}

// Spawn creates a task running fn. It may be called by the scheduler goroutine
// or by a running task (vsync.Go).
//
//go:norace
func (k *Kernel) Spawn(name string, group int, tag any, fn func()) *Task {
	t := &Task{ID: len(k.tasks), Name: name, Group: group, Tag: tag, wake: make(chan struct{})}
	t.state = Parked
	k.tasks = Push(k.tasks, t)
	k.live = Push(k.live, t)
	parent := k.running
	switch {
	case parent != nil:
		parent.children++
		t.Key = MixKey(parent.Key, parent.children)
	case k.KeyHint != 0:
		t.Key, k.KeyHint = k.KeyHint, 0
	default:
		k.rootKeys++
		t.Key = MixKey(0x5eed, k.rootKeys)
	}
	if k.OnSpawn != nil && parent != nil {
		k.OnSpawn(parent, t)
	}
	k.logf("spawn t%d %s", t.ID, name)
	go k.taskMain(t, fn)
	return t
}

//go:norace
func (k *Kernel) taskMain(t *Task, fn func()) {
	t.goid = goid()
	defer func() {
		if r := recover(); r != nil {
			if _, ok := r.(abortSentinel); !ok {
				t.PanicVal = r
				buf := make([]byte, 16384)
				n := runtime.Stack(buf, false)
				t.PanicStack = string(buf[:n])
				if !k.aborting {
					k.aborting = true
					if k.Fail == nil {
						k.Fail = &Failure{Kind: "panic", Msg: fmt.Sprint(r), Task: t.Name, Site: t.Site, Stack: t.PanicStack}
					}
				}
			}
		}
		if len(t.locks) > 0 && !k.aborting {
			for _, l := range t.locks {
				t.Leaked = Push(t.Leaked, lockName(l))
			}
			k.aborting = true
			if k.Fail == nil {
				k.Fail = &Failure{Kind: "lockleak", Msg: "task finished still holding " + strings.Join(t.Leaked, ","), Task: t.Name, Site: t.Site}
			}
		}
		k.logf("done t%d", t.ID)
		k.finished(t)
	}()
	k.park(t)
	if t.Group > 0 && t.Group < len(k.groupSync) {
		// tasks of one serial group model ONE goroutine of the real program
		HBAcquire(&k.groupSync[t.Group])
		defer HBRelease(&k.groupSync[t.Group])
	}
	if tm, ok := t.Tag.(*Timer); ok {
		HBAcquire(&tm.hb) // a timer callback happens after the call that armed it
	}
	fn()
}

// park blocks the calling task until the scheduler releases it.
//
//go:norace
func (k *Kernel) park(t *Task) {
	raceOff()
	<-t.wake
	raceOn()
	if k.aborting {
		panic(abortSentinel{})
	}
}

// Yield is a scheduling point of the calling task.
//
//go:norace
func (k *Kernel) Yield(site string) {
	t := k.Me()
	if t == nil {
		k.Foreign++
		return
	}
	k.YieldT(t, site)
}

//go:norace
func (k *Kernel) YieldT(t *Task, site string) {
	if k.aborting {
		if t.State() == Running {
			panic(abortSentinel{})
		}
		return
	}
	t.Site = site
	t.YieldsOp++
	if k.OpYields > 0 && t.YieldsOp > k.OpYields {
		k.FailNow(t, "spin", fmt.Sprintf("operation exceeded %d yield points without returning", k.OpYields))
	}
	t.setState(Parked)
	k.park(t)
}

// FailNow records a kernel-detected failure and aborts the run; it does not
// return when called from a task.
//
//go:norace
func (k *Kernel) FailNow(t *Task, kind, msg string) {
	if k.Fail == nil {
		buf := make([]byte, 16384)
		n := runtime.Stack(buf, false)
		name, site := "", ""
		if t != nil {
			name, site = t.Name, t.Site
		}
		k.Fail = &Failure{Kind: kind, Msg: msg, Task: name, Site: site, Stack: string(buf[:n])}
	}
	k.aborting = true
	if t != nil {
		panic(abortSentinel{})
	}
}

//go:norace
func (k *Kernel) runnable() []*Task {
	var cands []*Task
	var lastT *Task
	if k.nDone > 64 && k.nDone*2 > len(k.live) {
		// drop finished tasks from the list the hot loops walk (runs of tens of
		// thousands of calls); no loop over k.live is active here
		j := 0
		for _, t := range k.live {
			if t.State() != Done {
				k.live[j] = t
				j++
			}
		}
		for i := j; i < len(k.live); i++ {
			k.live[i] = nil
		}
		k.live, k.nDone = k.live[:j], 0
	}
	for _, t := range k.live {
		switch t.State() {
		case Parked:
		case BlockedSelect:
			if t.polledAt == k.version {
				continue
			}
		default:
			continue
		}
		if t.Held || (t.Group != 0 && k.groupBusy(t)) {
			continue
		}
		if t == k.last {
			lastT = t
			continue
		}
		cands = append(cands, t)
	}
	if lastT != nil {
		cands = append([]*Task{lastT}, cands...)
	}
	return cands
}

//go:norace
func (k *Kernel) groupBusy(t *Task) bool {
	for _, o := range k.live {
		if o.ID >= t.ID {
			return false
		}
		if o.Group == t.Group && o.State() != Done {
			return true
		}
	}
	return false
}

// HasRunnable reports whether some task could be released now.
//
//go:norace
func (k *Kernel) HasRunnable() bool { return len(k.runnable()) > 0 }

// Step releases one task chosen by the Chooser and waits until every goroutine
// of the bubble is durably blocked again. It returns false when nothing is
// runnable or the run is aborting.
//
//go:norace
func (k *Kernel) Step() bool {
	if k.aborting {
		return false
	}
	k.fireDue()
	cands := k.runnable()
	if len(cands) == 0 {
		return false
	}
	if k.steps >= k.MaxSteps {
		k.FailNow(nil, "harness", "run exceeded the global step cap")
		return false
	}
	i := 0
	if len(cands) > 1 {
		i = k.ch.Task(cands)
		if i < 0 || i >= len(cands) {
			i = 0
		}
	}
	t := cands[i]
	if k.last != nil && k.last != t && cands[0] == k.last {
		k.Switches++
		if k.last.YieldsOp > 0 {
			k.SwitchInOp++
		}
	}
	k.release(t)
	return true
}

// finished marks t done (a named function: the deferred closure that calls it
// is instrumented by the race detector, a //go:norace function is not).
//
//go:norace
func (k *Kernel) finished(t *Task) {
	t.setState(Done)
	k.nDone++
}

//go:norace
func (k *Kernel) release(t *Task) {
	wasSelect := t.State() == BlockedSelect
	k.steps++
	if k.steps&0x3fff == 0 {
		Beats.Add(1) // the run is alive (real-time watchdog of the worker)
	}
	t.Steps++
	verBefore := k.version
	k.version++
	k.running = t
	k.last = t
	t.setState(Running)
	raceOff()
	t.wake <- struct{}{}
	// synctest.Wait acquires (race-detector wise) everything the now blocked
	// goroutines did; with that in its clock the scheduler would pass it on to
	// every task it spawns later and hide races between them.
	synctest.Wait()
	raceOn()
	k.running = nil
	st := t.State()
	if st == Running {
		t.setState(BlockedReal)
		k.nReal++
		k.logf("t%d blocked in a real primitive after %s", t.ID, t.Site)
	}
	if wasSelect && st == BlockedSelect {
		// A failed poll changes nothing: do not make other pollers runnable.
		k.version = verBefore
		t.polledAt = k.version
	}
	// FNV-1a over (task id, site).
	h := k.Fingerprint
	h ^= uint64(t.ID) + 0x9e37
	h *= 1099511628211
	for i := 0; i < len(t.Site); i++ {
		h ^= uint64(t.Site[i])
		h *= 1099511628211
	}
	k.Fingerprint = h
	k.SiteCount[t.Site]++
	if k.LogOn {
		k.logf("step %d t%d %s -> %s @%s", k.steps, t.ID, t.Name, t.State(), t.Site)
	}
	k.recountReal()
}

//go:norace
func (k *Kernel) recountReal() {
	if k.nReal == 0 {
		return
	}
	n := 0
	for _, t := range k.live {
		if t.State() == BlockedReal {
			n++
		}
	}
	k.nReal = n
}

// Bump makes every select-blocked task pollable again (something outside the
// kernel's view changed: a context was cancelled, a channel closed by the harness).
//
//go:norace
func (k *Kernel) Bump() { k.version++ }

// Quiesce runs until no task is runnable (without advancing the clock).
//
//go:norace
func (k *Kernel) Quiesce() {
	for k.Step() {
	}
}

// RunSteps runs at most n steps.
//
//go:norace
func (k *Kernel) RunSteps(n int) {
	for i := 0; i < n && k.Step(); i++ {
	}
}

// RunOnly releases only task t, again and again, until it is done or cannot
// proceed by itself (blocked on a lock, condition, select or sleep); every other
// task stays where it is and no timer fires. It makes no scheduling choice, so
// it leaves the tape untouched. Reports whether t finished.
//
//go:norace
func (k *Kernel) RunOnly(t *Task) bool {
	for !k.aborting && t.State() != Done {
		st := t.State()
		if st != Parked && !(st == BlockedSelect && t.polledAt != k.version) {
			return false
		}
		if k.steps >= k.MaxSteps {
			k.FailNow(nil, "harness", "run exceeded the global step cap")
			return false
		}
		k.release(t)
	}
	return t.State() == Done
}

// RunUntil runs steps until pred() holds or nothing is runnable.
//
//go:norace
func (k *Kernel) RunUntil(pred func() bool) {
	for !pred() && k.Step() {
	}
}

// Blocked returns the tasks that are blocked inside the kernel on a lock or a
// cond, with no way forward unless another task acts.
//
//go:norace
func (k *Kernel) Blocked(states ...State) []*Task {
	var out []*Task
	for _, t := range k.live {
		s := t.State()
		for _, w := range states {
			if s == w {
				out = append(out, t)
			}
		}
	}
	return out
}

// Live returns the tasks that have not finished.
//
//go:norace
func (k *Kernel) Live() []*Task {
	var out []*Task
	for _, t := range k.live {
		if t.State() != Done {
			out = append(out, t)
		}
	}
	return out
}

// Shutdown aborts every remaining task. BlockedReal tasks cannot be reached by
// the kernel; the harness must cancel whatever they block on first.
//
//go:norace
func (k *Kernel) Shutdown() {
	k.aborting = true
	for round := 0; round < 4; round++ {
		progress := false
		for _, t := range k.tasks {
			s := t.State()
			if s == Done || s == BlockedReal || s == Running {
				continue
			}
			progress = true
			t.setState(Running)
			raceOff()
			t.wake <- struct{}{}
			synctest.Wait()
			raceOn()
			if t.State() == Running {
				t.setState(BlockedReal)
			}
		}
		if !progress {
			break
		}
	}
}

// ---------------------------------------------------------------- waiters

// Waiter is a one-shot/level signal a task can block on in the kernel; the
// harness and the fake environments use it (e.g. "call in flight until the
// plan completes it").
type Waiter struct {
	set     bool
	waiters []*Task
	Note    string
}

// Wait blocks the calling task until Set has been called.
//
//go:norace
func (k *Kernel) Wait(w *Waiter) {
	t := k.Me()
	if t == nil {
		panic("kern: Wait outside a task")
	}
	for !w.set {
		if k.aborting {
			panic(abortSentinel{})
		}
		w.waiters = Push(w.waiters, t)
		t.BlockNote = w.Note
		t.setState(BlockedWait)
		k.park(t)
	}
}

// Set releases current and future waiters.
//
//go:norace
func (k *Kernel) Set(w *Waiter) {
	w.set = true
	for _, t := range w.waiters {
		if t.State() == BlockedWait {
			t.setState(Parked)
		}
	}
	w.waiters = nil
}

//go:norace
func (w *Waiter) IsSet() bool { return w.set }

// ---------------------------------------------------------------- decisions

// Choose draws a non-scheduling decision in [0,n).
//
//go:norace
func (k *Kernel) Choose(kind string, n int) int {
	if n <= 1 {
		return 0
	}
	v := k.ch.N(kind, n)
	if v < 0 || v >= n {
		v = 0
	}
	return v
}

// Perm returns a permutation of 0..n-1 (identity when every draw is 0).
//
//go:norace
func (k *Kernel) Perm(kind string, n int) []int {
	p := make([]int, n)
	for i := range p {
		p[i] = i
	}
	// Fisher-Yates from the front so that all-zero draws give the identity.
	for i := 0; i < n-1; i++ {
		j := i + k.Choose(kind, n-i)
		p[i], p[j] = p[j], p[i]
	}
	return p
}

//go:norace
func lockName(l any) string {
	switch m := l.(type) {
	case interface{ LockName() string }:
		return m.LockName()
	}
	return fmt.Sprintf("%T", l)
}

//go:norace
func synctestWait() {
	raceOff()
	synctest.Wait()
	raceOn()
}

// NoSync runs f with race-detector synchronisation events ignored on the
// calling goroutine: the scheduler uses it around real primitives it touches on
// behalf of the plan (context cancellation) so that it never becomes a
// happens-before relay between tasks.
//
//go:norace
func NoSync(f func()) {
	raceOff()
	f()
	raceOn()
}

// IsAbort reports whether a recovered panic value is the kernel's abort
// sentinel (which harness recover() sites must re-panic).
//
//go:norace
func IsAbort(r any) bool { _, ok := r.(abortSentinel); return ok }

// MixKey derives a task key from a parent key and an ordinal.
//
//go:norace
func MixKey(a, b uint64) uint64 {
	x := a*0x9e3779b97f4a7c15 ^ (b + 0xbf58476d1ce4e5b9)
	x ^= x >> 31
	x *= 0x94d049bb133111eb
	x ^= x >> 29
	if x == 0 {
		x = 1
	}
	return x
}
