package kern

import (
	"fmt"
	"sync"
)

// Locker mirrors sync.Locker.
type Locker interface {
	Lock()
	Unlock()
}

var lockSeq int

// Mutex is a simulation-aware sync.Mutex. A task that cannot take it becomes
// blocked in the kernel (never in the Go runtime), so tasks can be parked while
// holding locks and every lock interleaving is schedulable. The real mutex
// underneath is then taken uncontended, which keeps the race detector's
// happens-before edges exactly those of the program under test.
type Mutex struct {
	real  sync.Mutex
	owner *Task
	name  string
	nwait int // tasks blocked on (or woken for and not yet holding) this mutex
}

//go:norace
func (m *Mutex) LockName() string {
	if m.name == "" {
		return fmt.Sprintf("mutex@%p", m)
	}
	return m.name
}

//go:norace
func (m *Mutex) Lock() {
	k := Cur()
	if k == nil {
		m.real.Lock()
		return
	}
	t := k.Me()
	if t == nil {
		if m.owner != nil {
			panic("kern: non-task goroutine locks a mutex owned by a parked task (harness bug)")
		}
		m.real.Lock()
		return
	}
	// Handoff: others want this lock right now (a scheduling decision at which a
	// strategy should not just keep running the current task: lock dropped and
	// taken again by the same goroutine, with waiters in between)
	t.Handoff = m.nwait > 0
	k.YieldT(t, "Mutex.Lock")
	t.Handoff = false
	counted := false
	for m.owner != nil {
		if m.owner == t {
			k.FailNow(t, "relock", "task locks a sync.Mutex it already holds (self-deadlock)")
		}
		if !counted {
			counted = true
			m.nwait++
		}
		t.waitLock, t.waitWrite = m, true
		t.setState(BlockedLock)
		k.park(t)
	}
	if counted {
		m.nwait--
	}
	t.waitLock = nil
	m.owner = t
	t.locks = Push[any](t.locks, m)
	m.real.Lock()
}

//go:norace
func (m *Mutex) TryLock() bool {
	k := Cur()
	if k == nil {
		return m.real.TryLock()
	}
	t := k.Me()
	if t == nil {
		return m.real.TryLock()
	}
	k.YieldT(t, "Mutex.TryLock")
	if m.owner != nil {
		return false
	}
	m.owner = t
	t.locks = Push[any](t.locks, m)
	m.real.Lock()
	return true
}

//go:norace
func (m *Mutex) Unlock() {
	k := Cur()
	if k == nil {
		m.real.Unlock()
		return
	}
	t := k.Me()
	if t == nil || m.owner == nil {
		// pass-through acquisition (non-task goroutine) or unlock of an unlocked
		// mutex: let the real mutex decide (it panics exactly like the original).
		m.real.Unlock()
		return
	}
	owner := m.owner
	m.owner = nil
	dropLock(owner, m)
	m.real.Unlock()
	k.wakeLockWaiters(m)
	if !k.aborting {
		t.Handoff = m.nwait > 0
		k.YieldT(t, "Mutex.Unlock")
		t.Handoff = false
	}
}

//go:norace
func dropLock(t *Task, l any) {
	for i := len(t.locks) - 1; i >= 0; i-- {
		if t.locks[i] == l {
			t.locks = RemoveAt(t.locks, i)
			return
		}
	}
}

//go:norace
func (k *Kernel) wakeLockWaiters(l any) {
	for _, o := range k.live {
		if o.State() == BlockedLock && o.waitLock == l {
			o.setState(Parked)
		}
	}
}

// RWMutex is a simulation-aware sync.RWMutex with Go's semantics: a waiting
// writer blocks new readers, so a recursive read lock with a writer waiting is
// the deadlock it is in the real program.
type RWMutex struct {
	real     sync.RWMutex
	writer   *Task
	readers  []*Task
	wwaiting int
	rwaiting int // readers blocked on (or woken for and not yet holding) it
	name     string
}

//go:norace
func (m *RWMutex) LockName() string {
	if m.name == "" {
		return fmt.Sprintf("rwmutex@%p", m)
	}
	return m.name
}

//go:norace
func (m *RWMutex) holdsRead(t *Task) bool {
	for _, r := range m.readers {
		if r == t {
			return true
		}
	}
	return false
}

//go:norace
func (m *RWMutex) Lock() {
	k := Cur()
	if k == nil {
		m.real.Lock()
		return
	}
	t := k.Me()
	if t == nil {
		if m.writer != nil || len(m.readers) > 0 {
			panic("kern: non-task goroutine locks an rwmutex held by a parked task (harness bug)")
		}
		m.real.Lock()
		return
	}
	t.Handoff = m.wwaiting+m.rwaiting > 0
	k.YieldT(t, "RWMutex.Lock")
	t.Handoff = false
	if m.writer == t {
		k.FailNow(t, "relock", "task write-locks a sync.RWMutex it already holds (self-deadlock)")
	}
	if m.holdsRead(t) {
		k.FailNow(t, "relock", "task write-locks a sync.RWMutex it holds for reading (self-deadlock)")
	}
	m.wwaiting++
	for m.writer != nil || len(m.readers) > 0 {
		t.waitLock, t.waitWrite = m, true
		t.setState(BlockedLock)
		k.park(t)
	}
	m.wwaiting--
	t.waitLock = nil
	m.writer = t
	t.locks = Push[any](t.locks, m)
	m.real.Lock()
}

//go:norace
func (m *RWMutex) Unlock() {
	k := Cur()
	if k == nil {
		m.real.Unlock()
		return
	}
	t := k.Me()
	if t == nil || m.writer == nil {
		m.real.Unlock()
		return
	}
	w := m.writer
	m.writer = nil
	dropLock(w, m)
	m.real.Unlock()
	k.wakeLockWaiters(m)
	if !k.aborting {
		t.Handoff = m.wwaiting+m.rwaiting > 0
		k.YieldT(t, "RWMutex.Unlock")
		t.Handoff = false
	}
}

//go:norace
func (m *RWMutex) RLock() {
	k := Cur()
	if k == nil {
		m.real.RLock()
		return
	}
	t := k.Me()
	if t == nil {
		if m.writer != nil {
			panic("kern: non-task goroutine read-locks an rwmutex held by a parked task (harness bug)")
		}
		m.real.RLock()
		return
	}
	t.Handoff = m.wwaiting+m.rwaiting > 0
	k.YieldT(t, "RWMutex.RLock")
	t.Handoff = false
	if m.writer == t {
		k.FailNow(t, "relock", "task read-locks a sync.RWMutex it holds for writing (self-deadlock)")
	}
	rcounted := false
	for m.writer != nil || m.wwaiting > 0 {
		if !rcounted {
			rcounted = true
			m.rwaiting++
		}
		if m.wwaiting > 0 && m.writer == nil && m.holdsRead(t) {
			// Go blocks a new reader behind a waiting writer; the writer waits
			// for this task's earlier read lock: real deadlock.
			k.FailNow(t, "relock", "recursive read lock with a writer waiting (deadlock under sync.RWMutex semantics)")
		}
		t.waitLock, t.waitWrite = m, false
		t.setState(BlockedLock)
		k.park(t)
	}
	if rcounted {
		m.rwaiting--
	}
	t.waitLock = nil
	m.readers = Push(m.readers, t)
	t.locks = Push[any](t.locks, m)
	m.real.RLock()
}

//go:norace
func (m *RWMutex) RUnlock() {
	k := Cur()
	if k == nil {
		m.real.RUnlock()
		return
	}
	t := k.Me()
	if t == nil || len(m.readers) == 0 {
		m.real.RUnlock()
		return
	}
	// Go allows RUnlock from a goroutine other than the one that RLocked; drop
	// this task's entry if it has one, else the oldest.
	idx := -1
	for i := len(m.readers) - 1; i >= 0; i-- {
		if m.readers[i] == t {
			idx = i
			break
		}
	}
	if idx < 0 {
		idx = 0
	}
	r := m.readers[idx]
	m.readers = RemoveAt(m.readers, idx)
	dropLock(r, m)
	m.real.RUnlock()
	if len(m.readers) == 0 {
		k.wakeLockWaiters(m)
	}
	if !k.aborting {
		t.Handoff = len(m.readers) == 0 && m.wwaiting+m.rwaiting > 0
		k.YieldT(t, "RWMutex.RUnlock")
		t.Handoff = false
	}
}

//go:norace
func (m *RWMutex) TryLock() bool {
	k := Cur()
	if k == nil || k.Me() == nil {
		return m.real.TryLock()
	}
	t := k.Me()
	k.YieldT(t, "RWMutex.TryLock")
	if m.writer != nil || len(m.readers) > 0 {
		return false
	}
	m.writer = t
	t.locks = Push[any](t.locks, m)
	m.real.Lock()
	return true
}

//go:norace
func (m *RWMutex) TryRLock() bool {
	k := Cur()
	if k == nil || k.Me() == nil {
		return m.real.TryRLock()
	}
	t := k.Me()
	k.YieldT(t, "RWMutex.TryRLock")
	if m.writer != nil || m.wwaiting > 0 {
		return false
	}
	m.readers = Push(m.readers, t)
	t.locks = Push[any](t.locks, m)
	m.real.RLock()
	return true
}

type rlocker RWMutex

//go:norace
func (r *rlocker) Lock() { (*RWMutex)(r).RLock() }

//go:norace
func (r *rlocker) Unlock() { (*RWMutex)(r).RUnlock() }

//go:norace
func (m *RWMutex) RLocker() Locker { return (*rlocker)(m) }

// OwnerInfo describes who holds the lock (diagnostics).
//
//go:norace
func OwnerInfo(l any) string {
	switch m := l.(type) {
	case *Mutex:
		if m.owner != nil {
			return fmt.Sprintf("owner=%s(%s @%s)", m.owner.Name, m.owner.State(), m.owner.Site)
		}
	case *RWMutex:
		s := ""
		if m.writer != nil {
			s = fmt.Sprintf("writer=%s(%s @%s)", m.writer.Name, m.writer.State(), m.writer.Site)
		}
		for _, r := range m.readers {
			s += fmt.Sprintf(" reader=%s(%s @%s)", r.Name, r.State(), r.Site)
		}
		return s
	}
	return ""
}

// Owners returns the tasks holding l.
//
//go:norace
func Owners(l any) []*Task {
	switch m := l.(type) {
	case *Mutex:
		if m.owner != nil {
			return []*Task{m.owner}
		}
	case *RWMutex:
		var o []*Task
		if m.writer != nil {
			o = append(o, m.writer)
		}
		return append(o, m.readers...)
	}
	return nil
}

// WaitLock returns the lock a BlockedLock task waits for.
//
//go:norace
func (t *Task) WaitLock() any { return t.waitLock }

// HeldLocks returns the names of the locks the task currently holds.
//
//go:norace
func (t *Task) HeldLocks() []string {
	var out []string
	for _, l := range t.locks {
		out = append(out, lockName(l))
	}
	return out
}

// Cond is a simulation-aware sync.Cond. Signal wakes the longest waiter, as
// the runtime's notify list does.
type Cond struct {
	L       Locker
	real    *sync.Cond
	waiters []*Task
}

//go:norace
func NewCond(l Locker) *Cond { return &Cond{L: l, real: sync.NewCond(l)} }

//go:norace
func (c *Cond) Wait() {
	k := Cur()
	var t *Task
	if k != nil {
		t = k.Me()
	}
	if t == nil {
		if c.real == nil {
			c.real = sync.NewCond(c.L)
		}
		c.real.Wait()
		return
	}
	t.signaled = false
	c.waiters = Push(c.waiters, t)
	c.L.Unlock()
	for !t.signaled {
		t.setState(BlockedCond)
		k.park(t)
	}
	c.L.Lock()
}

//go:norace
func (c *Cond) Signal() {
	k := Cur()
	if k == nil || k.Me() == nil {
		if c.real != nil {
			c.real.Signal()
		}
		if k == nil {
			return
		}
	}
	if t := k.Me(); t != nil {
		k.YieldT(t, "Cond.Signal")
	}
	if len(c.waiters) > 0 {
		w := c.waiters[0]
		c.waiters = RemoveAt(c.waiters, 0)
		w.signaled = true
		if w.State() == BlockedCond {
			w.setState(Parked)
		}
	}
}

//go:norace
func (c *Cond) Broadcast() {
	k := Cur()
	if k == nil || k.Me() == nil {
		if c.real != nil {
			c.real.Broadcast()
		}
		if k == nil {
			return
		}
	}
	if t := k.Me(); t != nil {
		k.YieldT(t, "Cond.Broadcast")
	}
	for _, w := range c.waiters {
		w.signaled = true
		if w.State() == BlockedCond {
			w.setState(Parked)
		}
	}
	c.waiters = nil
}

// CondWaiters reports how many tasks wait on c.
//
//go:norace
func (c *Cond) CondWaiters() int { return len(c.waiters) }
