package kern

import (
	"fmt"
	"sort"
	"time"
)

// Timer is a simulation-owned timer: the kernel knows its due time, fires it
// when the bubble clock reaches it (ties in seed-chosen order) and - for
// AfterFunc - runs the callback as a separate task, which models Go's "fired
// but not yet run" window exactly: once fired, Stop reports false and cannot
// prevent the callback.
type Timer struct {
	k       *Kernel
	seq     int
	due     time.Time
	period  time.Duration
	fn      func()
	C       chan time.Time
	sleeper *Task
	active  bool
	Fired   int
	key     uint64 // key of the callback task, derived from the creating task
	hb      int32
}

//go:norace
func (k *Kernel) newTimer(d time.Duration) *Timer {
	k.timerSeq++
	if d < 0 {
		d = 0
	}
	t := &Timer{k: k, seq: k.timerSeq, due: time.Now().Add(d), active: true}
	if c := k.Me(); c != nil {
		c.children++
		t.key = MixKey(c.Key, c.children)
	} else {
		k.rootKeys++
		t.key = MixKey(0x71be, k.rootKeys)
	}
	k.timers = Push(k.timers, t)
	return t
}

// AfterFunc is the simulation-owned time.AfterFunc.
//
//go:norace
func (k *Kernel) AfterFunc(d time.Duration, fn func()) *Timer {
	t := k.newTimer(d)
	t.fn = fn
	HBRelease(&t.hb)
	k.logf("timer %d afterfunc due +%v", t.seq, t.due.Sub(k.start))
	return t
}

// NewChanTimer is the simulation-owned time.NewTimer (period 0) / NewTicker.
//
//go:norace
func (k *Kernel) NewChanTimer(d, period time.Duration) *Timer {
	t := k.newTimer(d)
	t.period = period
	t.C = make(chan time.Time, 1)
	return t
}

// Stop prevents the timer from firing; it reports whether it did so.
//
//go:norace
func (t *Timer) Stop() bool {
	was := t.active
	t.active = false
	t.k.logf("timer %d stop -> %v", t.seq, was)
	return was
}

// Reset re-arms the timer.
//
//go:norace
func (t *Timer) Reset(d time.Duration) bool {
	was := t.active
	if d < 0 {
		d = 0
	}
	t.due = time.Now().Add(d)
	t.active = true
	if !was {
		// keep it in the kernel's list exactly once
		found := false
		for _, o := range t.k.timers {
			if o == t {
				found = true
			}
		}
		if !found {
			t.k.timers = Push(t.k.timers, t)
		}
	}
	return was
}

// Sleep blocks the calling task for d of simulated time.
//
//go:norace
func (k *Kernel) Sleep(d time.Duration) {
	t := k.Me()
	if t == nil {
		time.Sleep(d)
		return
	}
	tm := k.newTimer(d)
	tm.sleeper = t
	t.signaled = false
	for !t.signaled {
		t.setState(BlockedSleep)
		k.park(t)
	}
}

// AddStop registers an instant (e.g. a context deadline) at which Advance must
// stop and let tasks run before moving the clock further.
//
//go:norace
func (k *Kernel) AddStop(at time.Time) { k.stops = append(k.stops, at) }

//go:norace
func (k *Kernel) gcTimers() {
	out := k.timers[:0]
	for _, t := range k.timers {
		if t.active {
			out = append(out, t)
		}
	}
	for i := len(out); i < len(k.timers); i++ {
		k.timers[i] = nil
	}
	k.timers = out
}

// fireDue fires every active timer whose due time has been reached.
//
//go:norace
func (k *Kernel) fireDue() {
	if len(k.timers) == 0 {
		return
	}
	now := time.Now()
	var due []*Timer
	for _, t := range k.timers {
		if t.active && !t.due.After(now) {
			due = append(due, t)
		}
	}
	if len(due) == 0 {
		return
	}
	sort.SliceStable(due, func(i, j int) bool {
		if !due[i].due.Equal(due[j].due) {
			return due[i].due.Before(due[j].due)
		}
		return due[i].seq < due[j].seq
	})
	// Permute ties.
	for i := 0; i < len(due); {
		j := i
		for j < len(due) && due[j].due.Equal(due[i].due) {
			j++
		}
		if j-i > 1 {
			p := k.Perm("timer", j-i)
			grp := append([]*Timer(nil), due[i:j]...)
			for x, y := range p {
				due[i+x] = grp[y]
			}
		}
		i = j
	}
	for _, t := range due {
		if !t.active { // stopped by nothing (no task ran), defensive
			continue
		}
		t.Fired++
		k.version++
		switch {
		case t.fn != nil:
			t.active = false
			fn := t.fn
			k.logf("timer %d fires", t.seq)
			k.KeyHint = t.key
			k.Spawn(fmt.Sprintf("timer#%d", t.seq), 0, t, fn)
		case t.sleeper != nil:
			t.active = false
			t.sleeper.signaled = true
			if t.sleeper.State() == BlockedSleep {
				t.sleeper.setState(Parked)
			}
		default:
			select {
			case t.C <- now:
			default:
			}
			if t.period > 0 {
				t.due = t.due.Add(t.period)
				if !t.due.After(now) {
					t.due = now.Add(t.period)
				}
			} else {
				t.active = false
			}
		}
	}
	k.gcTimers()
}

// NextDue returns the earliest due time among active one-shot timers (periodic
// tickers excluded when oneShotOnly).
//
//go:norace
func (k *Kernel) NextDue(oneShotOnly bool) (time.Time, bool) {
	var best time.Time
	ok := false
	for _, t := range k.timers {
		if !t.active || (oneShotOnly && t.period > 0) {
			continue
		}
		if !ok || t.due.Before(best) {
			best, ok = t.due, true
		}
	}
	return best, ok
}

// PendingOneShot counts active non-periodic timers.
//
//go:norace
func (k *Kernel) PendingOneShot() int {
	n := 0
	for _, t := range k.timers {
		if t.active && t.period == 0 {
			n++
		}
	}
	return n
}

//go:norace
func (k *Kernel) sleepUntil(at time.Time) {
	d := time.Until(at)
	if d > 0 {
		time.Sleep(d) // bubble clock: returns at once, fake time advanced by d
		k.version++
		// The per-operation yield budget detects spinning without progress of
		// time; polling on a ticker while the clock advances is not a spin.
		for _, t := range k.live {
			t.YieldsOp = 0
		}
	}
}

// Advance moves the simulated clock forward by d, stopping at every timer due
// time and registered stop on the way; at each stop due timers fire and tasks
// run to quiescence.
//
//go:norace
func (k *Kernel) Advance(d time.Duration) {
	k.Quiesce()
	target := time.Now().Add(d)
	for !k.aborting {
		now := time.Now()
		next := target
		found := false
		for _, t := range k.timers {
			if t.active && !t.due.After(target) && (!found || t.due.Before(next)) {
				next, found = t.due, true
			}
		}
		for _, s := range k.stops {
			if s.After(now) && !s.After(target) && (!found || s.Before(next)) {
				next, found = s, true
			}
		}
		if !found {
			break
		}
		k.sleepUntil(next)
		synctestWait()
		k.fireDue()
		k.Quiesce()
		if !next.Before(target) {
			break
		}
	}
	if !k.aborting {
		k.sleepUntil(target)
		synctestWait()
		k.fireDue()
		k.Quiesce()
	}
	// drop stops in the past
	out := k.stops[:0]
	now := time.Now()
	for _, s := range k.stops {
		if s.After(now) {
			out = append(out, s)
		}
	}
	k.stops = out
}

// Elapsed is the simulated time since the kernel was created.
//
//go:norace
func (k *Kernel) Elapsed() time.Duration { return time.Since(k.start) }

// Start is the bubble time at which the kernel was created.
//
//go:norace
func (k *Kernel) Start() time.Time { return k.start }

// AdvanceHold moves the clock forward by d like Advance, but callbacks of
// AfterFunc timers that fire on the way are created held: they have fired (Stop
// reports false) and run only when the harness releases them - the
// fired-but-not-run window of Go timers. It returns the held tasks.
//
//go:norace
func (k *Kernel) AdvanceHold(d time.Duration) []*Task {
	k.Quiesce()
	target := time.Now().Add(d)
	var held []*Task
	for !k.aborting {
		next := target
		found := false
		for _, t := range k.timers {
			if t.active && !t.due.After(target) && (!found || t.due.Before(next)) {
				next, found = t.due, true
			}
		}
		if !found {
			break
		}
		k.sleepUntil(next)
		synctestWait()
		n0 := len(k.tasks)
		k.fireDue()
		for _, t := range k.tasks[n0:] {
			t.Held = true
			held = append(held, t)
		}
		k.Quiesce()
	}
	if !k.aborting {
		k.sleepUntil(target)
		synctestWait()
	}
	return held
}

// Release makes a held task runnable.
//
//go:norace
func (k *Kernel) Release(t *Task) { t.Held = false }
