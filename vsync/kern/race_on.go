//go:build race

package kern

import "runtime"

// Hand-off channel operations must not create happens-before edges between
// tasks: they exist only in the simulation, not in the program under test.
//
//go:norace
func raceOff() { runtime.RaceDisable() }

//go:norace
func raceOn() { runtime.RaceEnable() }

const RaceBuild = true
