//go:build race

package kern

import (
	"runtime"
	"unsafe"
)

// Hand-off channel operations must not create happens-before edges between
// tasks: they exist only in the simulation, not in the program under test.
//
//go:norace
func raceOff() { runtime.RaceDisable() }

//go:norace
func raceOn() { runtime.RaceEnable() }

const RaceBuild = true

// HBRelease / HBAcquire create an explicit happens-before edge through addr for
// orderings that exist in the real program but that the simulation implements
// by other means (one logical goroutine modelled by several tasks, a timer
// callback after the call that armed it, an object handed to other goroutines
// by the application).
func HBRelease(addr *int32) { runtime.RaceReleaseMerge(unsafe.Pointer(addr)) }
func HBAcquire(addr *int32) { runtime.RaceAcquire(unsafe.Pointer(addr)) }
