package kern

// SelCase is one communication clause of a rewritten select statement: a
// non-blocking attempt that commits when it succeeds.
type SelCase interface{ Try() bool }

// Select is the simulation-owned select: clauses are polled in a seed-chosen
// order (the runtime's choice among ready clauses is random), and a task with
// no ready clause blocks in the kernel until something may have changed.
// It returns the index of the clause that fired, or -1 for default.
//
//go:norace
func (k *Kernel) Select(hasDefault bool, cases []SelCase) int {
	t := k.Me()
	if t == nil {
		panic("kern: Select outside a task with a kernel installed")
	}
	k.YieldT(t, "select")
	for {
		order := k.Perm("select", len(cases))
		for _, i := range order {
			if cases[i].Try() {
				return i
			}
		}
		if hasDefault {
			return -1
		}
		t.polledAt = k.version
		t.Site = "select(blocked)"
		t.setState(BlockedSelect)
		k.park(t)
	}
}
