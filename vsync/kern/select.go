package kern

// SelCase is one communication clause of a rewritten select statement: a
// non-blocking attempt that commits when it succeeds.
type SelCase interface{ Try() bool }

// RecvPeer / SendPeer let the kernel complete a rendezvous on an UNBUFFERED
// channel between a task blocked in a select and another task polling the
// opposite direction: in Go a non-blocking send succeeds when a receiver is
// parked in a select on that channel (and vice versa); two pollers would never
// meet otherwise.
type RecvPeer interface {
	ChanID() uintptr
	Deliver(v any) bool
}
type SendPeer interface {
	ChanID() uintptr
	Take() (any, bool)
}

// Select is the simulation-owned select: clauses are polled in a seed-chosen
// order (the runtime's choice among ready clauses is random), and a task with
// no ready clause blocks in the kernel until something may have changed.
// It returns the index of the clause that fired, or -1 for default.
//
//go:norace
func (k *Kernel) Select(hasDefault bool, cases []SelCase) int {
	t := k.Me()
	if t == nil {
		panic("kern: Select outside a task with a kernel installed")
	}
	k.YieldT(t, "select")
	for {
		order := k.Perm("select", len(cases))
		for _, i := range order {
			if cases[i].Try() {
				return i
			}
		}
		if hasDefault {
			return -1
		}
		t.polledAt = k.version
		t.Site = "select(blocked)"
		t.selCases, t.selFired = cases, -1
		t.setState(BlockedSelect)
		k.park(t)
		t.selCases = nil
		if t.selFired >= 0 {
			return t.selFired // completed by a rendezvous with another task
		}
	}
}

// RendezvousSend: a task polls a send on the unbuffered channel id; if another
// task is blocked in a select with a receive clause on it, hand the value over.
//
//go:norace
func (k *Kernel) RendezvousSend(id uintptr, v any) bool {
	me := k.Me()
	for _, o := range k.live {
		if o == me || o.State() != BlockedSelect || o.selFired >= 0 {
			continue
		}
		for i, c := range o.selCases {
			if rp, ok := c.(RecvPeer); ok && rp.ChanID() == id && rp.Deliver(v) {
				o.selFired = i
				o.setState(Parked)
				return true
			}
		}
	}
	return false
}

// RendezvousRecv: the mirror image.
//
//go:norace
func (k *Kernel) RendezvousRecv(id uintptr) (any, bool) {
	me := k.Me()
	for _, o := range k.live {
		if o == me || o.State() != BlockedSelect || o.selFired >= 0 {
			continue
		}
		for i, c := range o.selCases {
			if sp, ok := c.(SendPeer); ok && sp.ChanID() == id {
				if v, ok := sp.Take(); ok {
					o.selFired = i
					o.setState(Parked)
					return v, true
				}
			}
		}
	}
	return nil, false
}
