// Package vsync holds the helpers the instrumenter's rewrites call: Go (task
// creation), Select, deterministic map iteration, and the pool-connection seam
// of GCPMultiEndpoint. Without an installed kernel everything is pass-through.
package vsync

import (
	"context"
	"fmt"
	"reflect"
	"sort"

	"google.golang.org/grpc"
	"google.golang.org/grpc/connectivity"

	"verif.local/vsync/kern"
)

// ---------------------------------------------------------------- go

//go:norace
func spawn(fn func()) {
	if k := kern.Cur(); k != nil && k.Me() != nil {
		k.Spawn("go", 0, nil, fn)
		// creating a goroutine is a scheduling point
		k.Yield("go")
		return
	}
	go fn()
}

//go:norace
func Go0(f func()) { spawn(f) }

//go:norace
func Go1[A any](f func(A), a A) { spawn(func() { f(a) }) }

//go:norace
func Go2[A, B any](f func(A, B), a A, b B) { spawn(func() { f(a, b) }) }

//go:norace
func Go3[A, B, C any](f func(A, B, C), a A, b B, c C) { spawn(func() { f(a, b, c) }) }

//go:norace
func Go4[A, B, C, D any](f func(A, B, C, D), a A, b B, c C, d D) {
	spawn(func() { f(a, b, c, d) })
}

// ---------------------------------------------------------------- select

type RecvCase[T any] struct {
	ch <-chan T
	V  T
	OK bool
}

//go:norace
func Recv[T any](ch <-chan T) *RecvCase[T] { return &RecvCase[T]{ch: ch} }

//go:norace
func (r *RecvCase[T]) ChanID() uintptr { return reflect.ValueOf(r.ch).Pointer() }

//go:norace
func (r *RecvCase[T]) Deliver(v any) bool {
	x, ok := v.(T)
	if !ok {
		return false
	}
	r.V, r.OK = x, true
	return true
}

//go:norace
func (r *RecvCase[T]) Try() bool {
	select {
	case v, ok := <-r.ch:
		r.V, r.OK = v, ok
		return true
	default:
	}
	if r.ch != nil && cap(r.ch) == 0 {
		if k := kern.Cur(); k != nil && k.Me() != nil {
			if v, ok := k.RendezvousRecv(r.ChanID()); ok {
				return r.Deliver(v)
			}
		}
	}
	return false
}

type SendCase[T any] struct {
	ch   chan<- T
	v    T
	sent bool
}

//go:norace
func Send[T any](ch chan<- T, v T) *SendCase[T] { return &SendCase[T]{ch: ch, v: v} }

//go:norace
func (s *SendCase[T]) ChanID() uintptr { return reflect.ValueOf(s.ch).Pointer() }

//go:norace
func (s *SendCase[T]) Take() (any, bool) {
	if s.sent {
		return nil, false
	}
	s.sent = true
	return s.v, true
}

//go:norace
func (s *SendCase[T]) Try() bool {
	if s.sent {
		return true
	}
	select {
	case s.ch <- s.v:
		s.sent = true
		return true
	default:
	}
	if s.ch != nil && cap(s.ch) == 0 {
		if k := kern.Cur(); k != nil && k.Me() != nil {
			if k.RendezvousSend(s.ChanID(), s.v) {
				s.sent = true
				return true
			}
		}
	}
	return false
}

// Select returns the index of the clause that fired or -1 for default.
//
//go:norace
func Select(hasDefault bool, cases ...kern.SelCase) int {
	if k := kern.Cur(); k != nil && k.Me() != nil {
		return k.Select(hasDefault, cases)
	}
	// Pass-through: emulate with a polling-free reflect-less loop is not
	// possible generically; fall back to reflect-free blocking by spinning on
	// Try with the runtime scheduler. Only used when no kernel is installed.
	for {
		for i, c := range cases {
			if c.Try() {
				return i
			}
		}
		if hasDefault {
			return -1
		}
		yieldReal()
	}
}

// ---------------------------------------------------------------- map range

// SimIDer gives a canonical rank to map keys that have no natural order (fake
// connections).
type SimIDer interface{ SimID() int }

type MapIter[K comparable, V any] struct {
	m    map[K]V
	keys []K
	i    int
}

//go:norace
func rankLess(a, b any) (less bool, ok bool) {
	switch x := a.(type) {
	case string:
		if y, ok := b.(string); ok {
			return x < y, true
		}
	case int:
		if y, ok := b.(int); ok {
			return x < y, true
		}
	case int32:
		if y, ok := b.(int32); ok {
			return x < y, true
		}
	case int64:
		if y, ok := b.(int64); ok {
			return x < y, true
		}
	case uint32:
		if y, ok := b.(uint32); ok {
			return x < y, true
		}
	case uint64:
		if y, ok := b.(uint64); ok {
			return x < y, true
		}
	case bool:
		if y, ok := b.(bool); ok {
			return !x && y, true
		}
	case SimIDer:
		if y, ok := b.(SimIDer); ok {
			return x.SimID() < y.SimID(), true
		}
	case fmt.Stringer:
		if y, ok := b.(fmt.Stringer); ok {
			return x.String() < y.String(), true
		}
	}
	return false, false
}

//go:norace
func newIter[K comparable, V any](m map[K]V) *MapIter[K, V] {
	it := &MapIter[K, V]{m: m}
	k := kern.Cur()
	if k == nil || k.Me() == nil {
		for key := range m {
			it.keys = append(it.keys, key)
		}
		return it
	}
	for key := range m {
		it.keys = append(it.keys, key)
	}
	if len(it.keys) > 1 {
		bad := false
		sort.SliceStable(it.keys, func(i, j int) bool {
			l, ok := rankLess(any(it.keys[i]), any(it.keys[j]))
			if !ok {
				bad = true
			}
			return l
		})
		if bad {
			k.FailNow(k.Me(), "harness", fmt.Sprintf("map range over keys of type %T has no canonical order", it.keys[0]))
		}
		p := k.Perm("map", len(it.keys))
		out := make([]K, len(it.keys))
		for i, j := range p {
			out[i] = it.keys[j]
		}
		it.keys = out
	}
	return it
}

// RangeKV, RangeK, RangeV and RangeN start an iteration; the extra results are
// zero values that declare the loop variables with the right types.
//
//go:norace
func RangeKV[M ~map[K]V, K comparable, V any](m M) (*MapIter[K, V], K, V) {
	var k K
	var v V
	return newIter[K, V](m), k, v
}

//go:norace
func RangeK[M ~map[K]V, K comparable, V any](m M) (*MapIter[K, V], K) {
	var k K
	return newIter[K, V](m), k
}

//go:norace
func RangeV[M ~map[K]V, K comparable, V any](m M) (*MapIter[K, V], V) {
	var v V
	return newIter[K, V](m), v
}

//go:norace
func RangeN[M ~map[K]V, K comparable, V any](m M) *MapIter[K, V] { return newIter[K, V](m) }

// next advances to the next key that is still present (an entry removed during
// the iteration is not produced, as the language specifies).
//
//go:norace
func (it *MapIter[K, V]) next() (K, V, bool) {
	for it.i < len(it.keys) {
		key := it.keys[it.i]
		it.i++
		if v, ok := it.m[key]; ok {
			return key, v, true
		}
	}
	var k K
	var v V
	return k, v, false
}

//go:norace
func (it *MapIter[K, V]) NextKV(kp *K, vp *V) bool {
	k, v, ok := it.next()
	if ok {
		*kp, *vp = k, v
	}
	return ok
}

//go:norace
func (it *MapIter[K, V]) NextK(kp *K) bool {
	k, _, ok := it.next()
	if ok {
		*kp = k
	}
	return ok
}

//go:norace
func (it *MapIter[K, V]) NextV(vp *V) bool {
	_, v, ok := it.next()
	if ok {
		*vp = v
	}
	return ok
}

//go:norace
func (it *MapIter[K, V]) NextN() bool {
	_, _, ok := it.next()
	return ok
}

// ---------------------------------------------------------------- pool connection seam

// PoolConn is what GCPMultiEndpoint needs from a per-endpoint *grpc.ClientConn.
// The real *grpc.ClientConn satisfies it; the simulation supplies fakes through
// GCPMultiEndpointOptions.DialFunc.
type PoolConn interface {
	Invoke(ctx context.Context, method string, args interface{}, reply interface{}, opts ...grpc.CallOption) error
	NewStream(ctx context.Context, desc *grpc.StreamDesc, method string, opts ...grpc.CallOption) (grpc.ClientStream, error)
	GetState() connectivity.State
	WaitForStateChange(ctx context.Context, sourceState connectivity.State) bool
	Close() error
}

var _ PoolConn = (*grpc.ClientConn)(nil)

// Dial wraps grpc.Dial with the PoolConn result type. A nil *grpc.ClientConn
// must become a nil interface.
//
//go:norace
func Dial(target string, opts ...grpc.DialOption) (PoolConn, error) {
	c, err := grpc.Dial(target, opts...)
	if c == nil {
		return nil, err
	}
	return c, err
}
