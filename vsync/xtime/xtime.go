// Package xtime replaces package time in instrumented code (import swap): the
// clock is the synctest bubble clock, timers are owned by the kernel.
package xtime

import (
	"time"
	"unsafe"

	"verif.local/vsync/kern"
)

// Now is the bubble clock. With Kernel.TickNs > 0 every reading is TickNs later
// than the one before, as on a real machine (the bubble clock itself stands
// still while code runs): two readings inside one call differ.
//
//go:norace
func Now() time.Time {
	t := time.Now()
	k := kern.Cur()
	if k == nil {
		return t
	}
	if k.TickNs > 0 {
		t = t.Add(time.Duration(k.Tick()))
	}
	if k.MonoTimes {
		// Inside a synctest bubble time.Now carries no monotonic reading, so a step of
		// the wall clock cannot be told from time passing. With MonoTimes the value
		// is rebuilt the way the runtime builds it outside a bubble: wall clock =
		// bubble clock + WallSkew (what an NTP step or a VM resume moves), monotonic
		// reading = bubble time elapsed. Code that compares the values as they are is
		// immune to WallSkew; code that strips the monotonic reading (UTC(), Round(0),
		// Unix...) and compares wall clocks is not - as in production.
		return withMono(t.Add(k.WallSkew), int64(t.Sub(k.Start()))+1)
	}
	return t
}

type timeRep struct {
	wall uint64
	ext  int64
	loc  *time.Location
}

const (
	hasMonotonic     = 1 << 63
	nsecShift        = 30
	wallToUnixOffset = 2682288000 // seconds from Jan 1 1885 to Jan 1 1970 (time.wallToInternal - unixToInternal)
)

// withMono returns wall's instant as a time.Time that carries the monotonic
// reading mono (the representation documented in package time: flag bit, 33 bits
// of seconds since 1885, 30 bits of nanoseconds; ext = monotonic nanoseconds).
//
//go:norace
func withMono(wall time.Time, mono int64) time.Time {
	sec := wall.Unix() + wallToUnixOffset
	if sec < 0 || sec >= 1<<33 {
		return wall
	}
	var t time.Time
	r := (*timeRep)(unsafe.Pointer(&t))
	r.wall = hasMonotonic | uint64(sec)<<nsecShift | uint64(wall.Nanosecond())
	r.ext = mono
	r.loc = time.Local
	return t
}

//go:norace
func Since(t time.Time) time.Duration { return Now().Sub(t) }

//go:norace
func Until(t time.Time) time.Duration { return t.Sub(Now()) }

// Timer mirrors time.Timer.
type Timer struct {
	C  <-chan time.Time
	kt *kern.Timer
	rt *time.Timer
}

//go:norace
func (t *Timer) Stop() bool {
	if t.kt != nil {
		return t.kt.Stop()
	}
	return t.rt.Stop()
}

//go:norace
func (t *Timer) Reset(d time.Duration) bool {
	if t.kt != nil {
		return t.kt.Reset(d)
	}
	return t.rt.Reset(d)
}

//go:norace
func inSim() *kern.Kernel {
	if k := kern.Cur(); k != nil && k.Me() != nil {
		return k
	}
	return nil
}

//go:norace
func AfterFunc(d time.Duration, f func()) *Timer {
	if k := inSim(); k != nil {
		return &Timer{kt: k.AfterFunc(d, f)}
	}
	return &Timer{rt: time.AfterFunc(d, f)}
}

//go:norace
func NewTimer(d time.Duration) *Timer {
	if k := inSim(); k != nil {
		kt := k.NewChanTimer(d, 0)
		return &Timer{C: kt.C, kt: kt}
	}
	rt := time.NewTimer(d)
	return &Timer{C: rt.C, rt: rt}
}

//go:norace
func After(d time.Duration) <-chan time.Time { return NewTimer(d).C }

// Ticker mirrors time.Ticker.
type Ticker struct {
	C  <-chan time.Time
	kt *kern.Timer
	rt *time.Ticker
	d  time.Duration
}

//go:norace
func NewTicker(d time.Duration) *Ticker {
	if d <= 0 {
		panic("non-positive interval for NewTicker")
	}
	if k := inSim(); k != nil {
		kt := k.NewChanTimer(d, d)
		return &Ticker{C: kt.C, kt: kt, d: d}
	}
	rt := time.NewTicker(d)
	return &Ticker{C: rt.C, rt: rt, d: d}
}

//go:norace
func (t *Ticker) Stop() {
	if t.kt != nil {
		t.kt.Stop()
		return
	}
	t.rt.Stop()
}

//go:norace
func (t *Ticker) Reset(d time.Duration) {
	if t.kt != nil {
		t.kt.Stop()
		nk := kern.Cur().NewChanTimer(d, d)
		// keep the channel: forward is not possible without a goroutine, so swap
		// the kernel timer's channel instead.
		nk.C = t.kt.C
		t.kt = nk
		return
	}
	t.rt.Reset(d)
}

//go:norace
func Tick(d time.Duration) <-chan time.Time {
	if d <= 0 {
		return nil
	}
	return NewTicker(d).C
}

//go:norace
func Sleep(d time.Duration) {
	if k := inSim(); k != nil {
		k.Sleep(d)
		return
	}
	time.Sleep(d)
}
