package vsync

import "runtime"

func yieldReal() { runtime.Gosched() }
