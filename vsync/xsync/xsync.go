// Package xsync replaces package sync in instrumented code (import swap).
package xsync

import "verif.local/vsync/kern"

type (
	Mutex   = kern.Mutex
	RWMutex = kern.RWMutex
	Cond    = kern.Cond
	Locker  = kern.Locker
)

func NewCond(l Locker) *Cond { return kern.NewCond(l) }
