// Package xsync replaces package sync in instrumented code (import swap).
package xsync

import "verif.local/vsync/kern"

type (
	Mutex   = kern.Mutex
	RWMutex = kern.RWMutex
	Cond    = kern.Cond
	Locker  = kern.Locker
)

func NewCond(l Locker) *Cond { return kern.NewCond(l) }

// Once is sync.Once over the kernel's mutex: a second caller that arrives while
// the first one is parked inside f (at a yield point of the simulation) blocks
// in the kernel, not on a runtime mutex - which synctest does not count as a
// durable block, so the scheduler would wait for it for ever.
type Once struct {
	m    Mutex
	done bool
}

func (o *Once) Do(f func()) {
	o.m.Lock()
	defer o.m.Unlock()
	if !o.done {
		defer func() { o.done = true }()
		f()
	}
}
