// Package mesim simulates multiendpoint.MultiEndpoint: real state machine,
// simulation-owned clock and timers, API calls and timer callbacks as tasks,
// API calls placed inside the fired-but-not-run window of timers.
//
// The reference model is set-valued (DESIGN §7 C13): the end of a recovery
// window is a time in the statement but an event in any implementation, so the
// model keeps every state reachable by processing each due expiry at any point
// until all fired timers have run.
package mesim

import (
	"encoding/json"
	"fmt"
	"math/rand/v2"
	"sort"
	"strings"
	"testing"
	"time"

	"github.com/GoogleCloudPlatform/grpc-gcp-go/grpcgcp/multiendpoint"
	"github.com/anishathalye/porcupine"

	"verif.local/sim/simkit"
	"verif.local/vsync/kern"
)

const (
	OpAvail = iota
	OpSetList
	OpAdvance
	OpRunTimer
	OpCurrent
	nOps
)

var opNames = []string{"avail", "setlist", "advance", "runtimer", "current"}

// index 5 is never listed (reports for an unknown endpoint); 6.. are used by
// "big" plans only (lists of up to 40 endpoints)
var universe, bigIdx = func() ([]string, []int) {
	// endpoint names are opaque strings (gRPC targets may carry commas, e.g.
	// "ipv4:10.0.0.1:443,10.0.0.2:443"): one name is the comma-join of two others
	// ... and one differs from another in letter case only
	// ... and one is the empty string
	u := []string{"a", "b", "a,b", "A", "", "zz-unknown"}
	idx := []int{0, 1, 2, 3, 4}
	for i := 0; i < 35; i++ {
		idx = append(idx, len(u))
		u = append(u, fmt.Sprintf("n%02d", i))
	}
	return u, idx
}()

// uni: the names of the current run (plain memory: a worker executes one run at
// a time and sets it before the run's first task). Plan.Padded: the second name
// is " b" and the fourth is "b" - two endpoints that differ in surrounding white
// space only (what strings.Split("a, b", ",") yields).
var uni = universe

var universePadded = func() []string {
	u := append([]string(nil), universe...)
	u[1], u[3] = " b", "b"
	return u
}()

// list lengths around which implementations tend to switch strategy
var bigSizes = []int{7, 8, 9, 12, 13, 15, 16, 17, 24, 31, 32, 33, 40}

// randListBig: 1-40 of 40 names, biased to the lengths above (so that
// successive lists cross them both ways).
//
//go:norace
func randListBig(r *rand.Rand, allowEmpty bool) []int {
	if allowEmpty && r.IntN(15) == 0 {
		return []int{}
	}
	n := 1 + r.IntN(len(bigIdx))
	if r.IntN(2) == 0 {
		n = bigSizes[r.IntN(len(bigSizes))]
	}
	p := r.Perm(len(bigIdx))[:n]
	out := make([]int, n)
	for i, x := range p {
		out[i] = bigIdx[x]
	}
	return out
}

type Op struct {
	K    int   `json:"k"`
	E    int   `json:"e,omitempty"`    // endpoint index (avail)
	Up   bool  `json:"up,omitempty"`   // availability
	List []int `json:"list,omitempty"` // new endpoint list
	A    int   `json:"a,omitempty"`    // advance kind / timer selector
	Ms   int   `json:"ms,omitempty"`
	Hold bool  `json:"hold,omitempty"` // fired callbacks are held (fired-but-not-run window)
	Dup  int   `json:"dup,omitempty"`  // >0: the list passed repeats entry (Dup-1)%len right after itself (same set, same order)
	N    int   `json:"n,omitempty"`    // concurrent mode: steps after starting
	ID   int   `json:"id,omitempty"`   // stable identity
}

type Plan struct {
	Profile    string `json:"profile"`
	Init       []int  `json:"init"`
	RMs        int    `json:"r_ms"`
	DMs        int    `json:"d_ms"`
	Concurrent bool   `json:"concurrent"`
	Strategy   int    `json:"strategy"`
	// Alias: the application keeps ONE endpoint slice, edits it in place and passes
	// it again; Scribble n > 0: it overwrites that slice after every n-th call
	Alias   bool `json:"alias,omitempty"`
	InitDup int  `json:"init_dup,omitempty"`
	Big     bool `json:"big,omitempty"`  // endpoint lists of up to 40 names
	Tick    bool `json:"tick,omitempty"` // the clock moves 1 ns with every reading
	// WallSteps: clock readings carry a monotonic part and the wall clock is stepped
	// (NTP corrections, VM resume) by some of the advance operations
	WallSteps bool `json:"wall_steps,omitempty"`
	Padded    bool `json:"padded,omitempty"` // see uni
	Fine      bool `json:"fine,omitempty"`   // r_ms / d_ms count units of 50 microseconds: timeouts below and between whole milliseconds
	Scribble  int  `json:"scribble,omitempty"`
	Ops       []Op `json:"ops"`
}

//go:norace
func (p *Plan) Clone() *Plan {
	c := *p
	c.Init = append([]int(nil), p.Init...)
	c.Ops = make([]Op, len(p.Ops))
	for i, o := range p.Ops {
		c.Ops[i] = o
		c.Ops[i].List = append([]int(nil), o.List...)
	}
	return &c
}

//go:norace
func randList(r *rand.Rand, allowEmpty bool) []int {
	n := 1 + r.IntN(5)
	if allowEmpty && r.IntN(12) == 0 {
		return []int{}
	}
	p := r.Perm(5)
	return p[:n]
}

// Generate draws a plan. Profile "me0": no switching delay (C13's exact
// clause); "med": switching delay and/or recovery timeout (C14); "me": both.
//
//go:norace
func Generate(r *rand.Rand, profile string, concurrent bool) *Plan {
	p := &Plan{Profile: profile, Concurrent: concurrent}
	p.Init = randList(r, false)
	if !concurrent && r.IntN(8) == 0 {
		// scale: long endpoint lists; no recovery timeout (the set-valued model
		// doubles per newly listed endpoint otherwise)
		p.Big = true
		p.Init = randListBig(r, false)
	}
	if !concurrent && r.IntN(10) == 0 {
		p.InitDup = 1 + r.IntN(5)
		if p.Big && r.IntN(2) == 0 {
			p.InitDup = 100 + r.IntN(3)
			if r.IntN(3) == 0 {
				p.InitDup = 132 + r.IntN(7) // every entry 34-40 times: positions beyond 1024 for the longest lists
			}
		}
	}
	rs := []int{0, 0, 10, 20, 50}
	ds := []int{0, 10, 20, 40, 70}
	p.RMs = rs[r.IntN(len(rs))]
	switch profile {
	case "me0":
		p.DMs = 0
	case "med":
		p.DMs = ds[1+r.IntN(len(ds)-1)]
		if r.IntN(4) == 0 {
			p.DMs = 0
			p.RMs = rs[2+r.IntN(3)]
		}
	default:
		p.DMs = ds[r.IntN(len(ds))]
	}
	if concurrent {
		p.Strategy = r.IntN(6) // 0 random walk, 1-3 PCT depth, 4-5 one long stall
	}
	p.Tick = r.IntN(3) == 0
	p.WallSteps = !concurrent && r.IntN(4) == 0
	p.Padded = r.IntN(5) == 0
	p.Fine = r.IntN(6) == 0
	if !concurrent && r.IntN(3) == 0 {
		p.Alias = true
		p.Scribble = r.IntN(3) // 0 never
	}
	n := 6 + r.IntN(40)
	if r.IntN(4) == 0 {
		n = 3 + r.IntN(8)
	}
	if p.Big && p.RMs > 0 {
		p.Init = randList(r, false)
		n = 30 + r.IntN(40) // room to grow the list
	}
	lastList := p.Init
	for i := 0; i < n; i++ {
		o := Op{}
		switch x := r.IntN(100); {
		case x < 50:
			o.K = OpAvail
			o.E = r.IntN(5)
			if p.Big {
				o.E = bigIdx[r.IntN(len(bigIdx))]
			}
			if r.IntN(15) == 0 {
				o.E = 5 // unknown endpoint
			}
			o.Up = r.IntN(5) < 3
		case x < 65:
			o.K = OpSetList
			o.List = randList(r, true)
			if p.Big && p.RMs == 0 {
				o.List = randListBig(r, true)
			} else if p.Big {
				// under a recovery timeout a long list grows and shrinks by a few names
				// at a time (every newly listed endpoint starts a window; dozens ending
				// at one instant make the set of possible states explode)
				l := append([]int(nil), lastList...)
				for k := r.IntN(6) - 3; k > 0 && len(l) > 1; k-- {
					j := r.IntN(len(l))
					l = append(l[:j], l[j+1:]...)
				}
				for k := r.IntN(5); k > 0; k-- {
					x := bigIdx[r.IntN(len(bigIdx))]
					dup := false
					for _, y := range l {
						dup = dup || y == x
					}
					if !dup {
						j := r.IntN(len(l) + 1)
						l = append(l[:j], append([]int{x}, l[j:]...)...)
					}
				}
				if r.IntN(3) == 0 {
					r.Shuffle(len(l), func(a, b int) { l[a], l[b] = l[b], l[a] })
				}
				o.List = l
				lastList = l
			}
			if !concurrent && r.IntN(6) == 0 {
				o.Dup = 1 + r.IntN(5)
				if p.Big && r.IntN(2) == 0 {
					o.Dup = 100 + r.IntN(3)
					if r.IntN(3) == 0 {
						o.Dup = 132 + r.IntN(7)
					}
				}
			}
		case x < 88:
			o.K = OpAdvance
			o.A = r.IntN(5)
			o.Ms = []int{1, 5, 10, 20, 30, 50, 100}[r.IntN(7)]
			if r.IntN(12) == 0 {
				o.Ms = []int{31000, 600000, 86400000}[r.IntN(3)] // a quiet period
			}
			o.Hold = r.IntN(2) == 0
		default:
			o.K = OpRunTimer
			o.A = r.IntN(4)
		}
		if concurrent {
			o.N = r.IntN(8)
		}
		o.ID = i + 1
		if p.Big && p.RMs > 0 && o.K == OpAdvance && i%4 != 0 {
			// long lists under a recovery timeout: dozens of windows end at the same
			// instant; mostly let the timers run (every subset of unprocessed
			// expiries is a possible state otherwise)
			o.Hold = false
		}
		p.Ops = append(p.Ops, o)
	}
	return p
}

// ---------------------------------------------------------------- model

// linSep separates names inside the linearizability model's state strings: a
// character no endpoint name contains (names themselves may contain commas).
const linSep = "\x00"

type stKind int

const (
	unavailable stKind = iota
	available
	recovering
)

type epState struct {
	kind stKind
	t    time.Duration // end of the recovery window
	// fresh: a newly listed endpoint under a recovery timeout - "known
	// unavailable" by the statement, recovering until t for the implementation
	// (and its pinned tests). Both readings are accepted; they differ only once
	// the endpoint is, was or becomes the current one, so the state is split in
	// two (split) only then - not when the endpoint is listed, which would
	// double the set of possible states per endpoint.
	fresh bool
}

type member struct {
	st  map[string]epState
	cur string
}

//go:norace
func (m member) key(list []string) string {
	var b strings.Builder
	b.WriteString(m.cur)
	for _, e := range list {
		s := m.st[e]
		fmt.Fprintf(&b, "|%s:%d:%d:%v", e, s.kind, s.t, s.fresh)
	}
	return b.String()
}

//go:norace
func (m member) clone() member {
	c := member{st: make(map[string]epState, len(m.st)), cur: m.cur}
	for k, v := range m.st {
		c.st[k] = v
	}
	return c
}

type model struct {
	list     []string
	members  []member
	r, d     time.Duration
	overflow bool // the set of possible states outgrew maxMembers: no verdicts
}

//go:norace
func idx(list []string, e string) int {
	for i, x := range list {
		if x == e {
			return i
		}
	}
	return -1
}

// rule computes Current() from the statement (no switching delay).
//
//go:norace
func rule(list []string, m member) string {
	ci := idx(list, m.cur)
	top := -1
	for i, e := range list {
		if m.st[e].kind == available {
			top = i
			break
		}
	}
	if ci >= 0 && m.st[m.cur].kind == recovering && (top < 0 || top > ci) {
		return m.cur
	}
	if top >= 0 {
		return list[top]
	}
	if ci < 0 {
		return list[0]
	}
	return m.cur
}

// split resolves the two readings of a newly listed endpoint e (see epState).
//
//go:norace
func split(m member, e string) []member {
	s, ok := m.st[e]
	if !ok || !s.fresh {
		return []member{m}
	}
	u, r := m.clone(), m.clone()
	u.st[e] = epState{kind: unavailable}
	r.st[e] = epState{kind: recovering, t: s.t}
	return []member{u, r}
}

//go:norace
func splitAll(ms []member, e string) []member {
	var out []member
	for _, m := range ms {
		out = append(out, split(m, e)...)
	}
	return out
}

// ruleSplit recomputes Current() by the statement for every reading of the
// current endpoint's status.
//
//go:norace
func ruleSplit(list []string, m member) []member {
	vs := split(m, m.cur)
	for i := range vs {
		vs[i].cur = rule(list, vs[i])
	}
	return vs
}

//go:norace
func (mo *model) dedupe(ms []member) []member {
	seen := map[string]bool{}
	var out []member
	for _, m := range ms {
		k := m.key(mo.list)
		if !seen[k] {
			seen[k] = true
			out = append(out, m)
		}
	}
	return out
}

// closure: every state reachable by processing any subset of due expiries, in
// any order, recomputing current after each (when there is no switching delay).
// When every fired timer has run (drained) every due expiry has been processed:
// only the fully processed states are produced. The subsets are exponential in
// the number of simultaneously due expiries; beyond maxMembers the run is given
// up without a verdict (mo.overflow).
//
//go:norace
func (mo *model) closure(ms []member, now time.Duration, drained bool) []member {
	out := append([]member(nil), ms...)
	seen := map[string]bool{}
	for _, m := range out {
		seen[m.key(mo.list)] = true
	}
	var full []member
	for i := 0; i < len(out); i++ {
		m := out[i]
		due := false
		for _, e := range mo.list {
			s := m.st[e]
			if s.kind == recovering && s.t <= now {
				due = true
				n := m.clone()
				n.st[e] = epState{kind: unavailable}
				vs := []member{n}
				if mo.d == 0 {
					vs = ruleSplit(mo.list, n)
				}
				for _, v := range vs {
					if k := v.key(mo.list); !seen[k] {
						seen[k] = true
						out = append(out, v)
					}
				}
				if drained {
					break // the order of processing does not change the fully processed state
				}
			}
		}
		if !due {
			full = append(full, m)
		}
		if len(out) > maxMembers {
			mo.overflow = true
			return out[:1]
		}
	}
	if drained {
		return full
	}
	return out
}

const maxMembers = 512

//go:norace
func (mo *model) newEndpointVariants(ms []member, e string, now time.Duration) []member {
	var out []member
	for _, m := range ms {
		// A new endpoint has never been reported available: "known unavailable"
		// by the statement; the implementation (and its pinned tests) lets it
		// recover for the recovery timeout first. Both readings are accepted
		// (resolved lazily, see epState.fresh).
		u := m.clone()
		if mo.r > 0 {
			u.st[e] = epState{kind: recovering, t: now + mo.r, fresh: true}
		} else {
			u.st[e] = epState{kind: unavailable}
		}
		out = append(out, u)
	}
	return out
}

//go:norace
func (mo *model) applyAvail(ms []member, e string, up bool, now time.Duration) []member {
	var out []member
	for _, m := range ms {
		n := m.clone()
		if _, ok := n.st[e]; ok && idx(mo.list, e) >= 0 {
			s := n.st[e]
			switch {
			case up:
				n.st[e] = epState{kind: available}
			case s.kind == available:
				if mo.r > 0 {
					n.st[e] = epState{kind: recovering, t: now + mo.r}
				} else {
					n.st[e] = epState{kind: unavailable}
				}
			}
		}
		if mo.d == 0 {
			out = append(out, ruleSplit(mo.list, n)...)
		} else {
			out = append(out, n)
		}
	}
	return out
}

//go:norace
func (mo *model) applySetList(ms []member, list []string, now time.Duration) []member {
	old := mo.list
	mo.list = list
	cur := ms
	// removed endpoints
	for i := range cur {
		n := cur[i].clone()
		for _, e := range old {
			if idx(list, e) < 0 {
				delete(n.st, e)
			}
		}
		cur[i] = n
	}
	for _, e := range list {
		if idx(old, e) < 0 {
			cur = mo.newEndpointVariants(cur, e, now)
		}
	}
	if mo.d == 0 {
		var out []member
		for i := range cur {
			out = append(out, ruleSplit(list, cur[i])...)
		}
		return out
	}
	return cur
}

// ---------------------------------------------------------------- run

// histOp is one operation of a concurrent burst, stamped with kernel step
// numbers (global event sequence), for the linearizability check.
type histOp struct {
	Kind     int // OpAvail, OpSetList, OpCurrent
	E        string
	Up       bool
	List     []string
	Out      string
	Err      bool
	Call     int64
	Ret      int64
	Returned bool
}

type sim struct {
	buf       []string // the application's own endpoint slice (plan.Alias)
	scribbles int
	lin       []*histOp
	plan      *Plan
	k         *kern.Kernel
	me        multiendpoint.MultiEndpoint
	mo        *model
	res       *simkit.Result
	held      []*kern.Task
	opIdx     int
	prev      string // last observed Current()
	stop      bool
	hist      []string
	hintOp    int
	hintN     uint64
	pub       int32
}

// withDup returns list with entry (dup-1)%len repeated right after itself: the
// same endpoints in the same priority order, written with a repeated name.
//
//go:norace
func withDup(list []string, dup int) []string {
	if dup >= 100 && len(list) > 0 {
		// every entry written dup-98 times in a row (2-4, or 34-40): the same
		// endpoints in the same priority order, in a list that many times as long -
		// positions run past 64 and 128 (past 1024) for long lists
		var out []string
		for _, e := range list {
			for k := 0; k < dup-98; k++ {
				out = append(out, e)
			}
		}
		return out
	}
	if dup <= 0 || len(list) == 0 {
		return list
	}
	i := (dup - 1) % len(list)
	out := append([]string{}, list[:i+1]...)
	out = append(out, list[i])
	return append(out, list[i+1:]...)
}

//go:norace
func names(is []int) []string {
	out := make([]string, len(is))
	for i, x := range is {
		out[i] = uni[x%len(uni)]
	}
	return out
}

//go:norace
func (s *sim) vio(prop, rule, facts, msg string) {
	sig := prop + "|" + rule
	if facts != "" {
		sig += "|" + facts
	}
	s.res.Violations = append(s.res.Violations, simkit.Violation{Property: prop, Rule: rule, Sig: sig, Msg: msg, Op: s.opIdx})
	s.k.Logf("VIOLATION %s %s", sig, msg)
	s.stop = true
}

// call runs fn as a task to quiescence; panics are C05-class but reported under
// the property the profile targets (no method of MultiEndpoint may panic).
//
//go:norace
func (s *sim) call(name string, fn func()) {
	s.hint()
	t := s.k.Spawn(name, 0, nil, func() {
		// the application hands the constructed object to its goroutines with
		// proper synchronisation: one edge from the constructor, none between
		// the operations themselves
		kern.HBAcquire(&s.pub)
		fn()
		if name == "New" {
			kern.HBRelease(&s.pub)
		}
	})
	// Only the call itself runs until it returns ("... when the triggering call
	// returns"): anything it leaves to a goroutine or a zero-delay timer has not
	// happened when Current() is read next. observe() lets the rest run.
	if !s.k.RunOnly(t) {
		s.k.Quiesce()
	}
	s.kernelFailure()
}

// callerList returns the slice the application passes to the library. With
// plan.Alias the application owns one buffer which it edits in place and passes
// again whenever the length fits - legal use: the library may not keep the
// caller's slice, neither to read it later nor to compare a new list with.
//
//go:norace
func (s *sim) callerList(list []string) []string {
	if !s.plan.Alias {
		return append([]string{}, list...)
	}
	if len(s.buf) == len(list) && len(list) > 0 {
		for i := range list { // not copy(): the runtime's slice copy reports to the race detector even from norace code
			s.buf[i] = list[i]
		}
		s.res.Count("fault:caller_reuses_its_slice_in_place", 1)
	} else {
		s.buf = append([]string{}, list...)
	}
	return s.buf
}

// scribble: after the call returned the application overwrites its buffer.
//
//go:norace
func (s *sim) scribble() {
	if !s.plan.Alias || s.plan.Scribble == 0 {
		return
	}
	s.scribbles++
	if s.scribbles%s.plan.Scribble != 0 {
		return
	}
	for i := range s.buf {
		s.buf[i] = fmt.Sprintf("scribbled-%d", i)
	}
	s.res.Count("fault:caller_overwrites_its_slice_after_the_call", 1)
}

// reuseOptions: the caller's options object gets other contents once the
// constructor has returned (the scheduler goroutine writes it: not instrumented).
//
//go:norace
func (s *sim) reuseOptions(opts *multiendpoint.MultiEndpointOptions, r, d time.Duration) {
	if opts.RecoveryTimeout != r || opts.SwitchingDelay != d {
		s.res.Count("probe:constructor_edited_the_caller_options", 1)
	}
	switch (int(r/time.Millisecond)/10 + int(d/time.Millisecond)/10 + len(s.plan.Init)) % 3 {
	case 0:
		opts.RecoveryTimeout, opts.SwitchingDelay = 0, 0
	case 1:
		opts.RecoveryTimeout, opts.SwitchingDelay = 7*time.Hour, 3*time.Hour
	default:
		opts.RecoveryTimeout, opts.SwitchingDelay = d+time.Millisecond, r+time.Millisecond
	}
	opts.Endpoints = nil
	s.res.Count("fault:caller_reuses_its_options_object", 1)
}

//go:norace
func (s *sim) kernelFailure() {
	f := s.k.Fail
	if f == nil {
		return
	}
	s.k.Fail = nil
	fn := simkit.FuncOfStack(f.Stack, "grpcgcp/multiendpoint")
	switch f.Kind {
	case "relock", "lockleak", "spin":
		s.vio("C13", "lock-"+f.Kind, fn, f.Task+": "+f.Msg)
	case "panic":
		s.vio("C13", "panic", fn, fmt.Sprintf("panic in %s: %s", fn, f.Msg))
	default:
		s.res.Harness = f.Kind + ": " + f.Msg
		s.stop = true
	}
}

// overflowed: the model gave up (see closure); the run ends without a verdict.
//
//go:norace
func (s *sim) overflowed() bool {
	if s.mo.overflow && !s.stop {
		s.stop = true
		s.res.Count("model_state_set_too_large_run_not_judged", 1)
	}
	return s.mo.overflow
}

//go:norace
func (s *sim) current() string {
	var x string
	s.call("Current", func() { x = s.me.Current() })
	return x
}

//go:norace
func (s *sim) drained() bool {
	for _, t := range s.held {
		if t.State() != kern.Done {
			return false
		}
	}
	if due, ok := s.k.NextDue(true); ok && !due.After(time.Now()) {
		return false
	}
	return true
}

//go:norace
func Run(t *testing.T, plan *Plan, src *simkit.Source, logOn bool) *simkit.Result {
	res := &simkit.Result{}
	var s *sim
	h := simkit.Bubble(t, func() {
		s = &sim{plan: plan, res: res}
		s.run(src, logOn)
	})
	if h != "" && res.Harness == "" {
		res.Harness = h
	}
	res.Tape = src.Recorded()
	// Linearizability of the concurrent burst against the sequential statement
	// (no timers involved: recovery timeout and switching delay both zero). Runs
	// outside the bubble: porcupine uses real time for its timeout.
	if s != nil && plan.Concurrent && plan.RMs == 0 && plan.DMs == 0 && res.Harness == "" && len(res.Violations) == 0 && len(s.lin) > 0 {
		s.checkLinearizable(res)
	}
	return res
}

//go:norace
func (s *sim) linOp(h *histOp) *histOp {
	h.Call = int64(s.k.Steps())
	s.lin = kern.Push(s.lin, h)
	return h
}

//go:norace
func (s *sim) linRet(h *histOp) {
	h.Ret = int64(s.k.Steps()) + 1
	h.Returned = true
}

type linState struct {
	list  string // endpoints joined by ","
	avail string // sorted available endpoints joined by ","
	cur   string
}

//go:norace
func linRule(list []string, avail map[string]bool, cur string) string {
	for _, e := range list {
		if avail[e] {
			return e
		}
	}
	if idx(list, cur) < 0 {
		return list[0]
	}
	return cur
}

// checkLinearizable: the recorded history must be explainable by SOME order of
// its operations that respects real-time precedence, under the sequential
// statement (R = D = 0): availability reports set a status, list replacements
// keep the statuses of kept endpoints, Current() is the highest-priority
// available endpoint, else unchanged (the list's first endpoint if removed).
//
//go:norace
func (s *sim) checkLinearizable(res *simkit.Result) {
	for _, h := range s.lin {
		if !h.Returned {
			return // an operation never returned: judged elsewhere (deadlock)
		}
	}
	if len(s.lin) > 40 {
		return
	}
	init := linState{list: strings.Join(names(s.plan.Init), linSep), cur: names(s.plan.Init)[0]}
	model := porcupine.Model{
		Init: func() interface{} { return init },
		Step: func(st, in, out interface{}) (bool, interface{}) {
			state := st.(linState)
			h := in.(*histOp)
			list := strings.Split(state.list, linSep)
			avail := map[string]bool{}
			if state.avail != "" {
				// every element is prefixed ("\x01name"): the empty set and the set
				// holding the empty name are different strings
				for _, e := range strings.Split(state.avail, linSep) {
					avail[strings.TrimPrefix(e, "\x01")] = true
				}
			}
			switch h.Kind {
			case OpCurrent:
				return h.Out == state.cur, state
			case OpAvail:
				if idx(list, h.E) >= 0 {
					if h.Up {
						avail[h.E] = true
					} else {
						delete(avail, h.E)
					}
				}
			case OpSetList:
				if len(h.List) == 0 {
					return h.Err, state // rejected, nothing changes
				}
				if h.Err {
					return false, state
				}
				for e := range avail {
					if idx(h.List, e) < 0 {
						delete(avail, e)
					}
				}
				list = h.List
			}
			var av []string
			for e := range avail {
				av = append(av, "\x01"+e)
			}
			sort.Strings(av)
			ns := linState{list: strings.Join(list, linSep), avail: strings.Join(av, linSep), cur: linRule(list, avail, state.cur)}
			return true, ns
		},
		Equal: func(a, b interface{}) bool { return a.(linState) == b.(linState) },
	}
	var ops []porcupine.Operation
	for i, h := range s.lin {
		ops = append(ops, porcupine.Operation{ClientId: i, Input: h, Call: h.Call, Output: nil, Return: h.Ret})
	}
	res.Count("probe:linearizability_checked", 1)
	switch porcupine.CheckOperationsTimeout(model, ops, 3*time.Second) {
	case porcupine.Illegal:
		var desc []string
		for _, h := range s.lin {
			switch h.Kind {
			case OpCurrent:
				desc = append(desc, fmt.Sprintf("[%d,%d] Current()=%s", h.Call, h.Ret, h.Out))
			case OpAvail:
				desc = append(desc, fmt.Sprintf("[%d,%d] avail(%s,%v)", h.Call, h.Ret, h.E, h.Up))
			case OpSetList:
				desc = append(desc, fmt.Sprintf("[%d,%d] setlist(%v) err=%v", h.Call, h.Ret, h.List, h.Err))
			}
		}
		res.Violations = append(res.Violations, simkit.Violation{Property: "C13", Rule: "not-linearizable", Sig: "C13|not-linearizable|r=false|d=false",
			Msg: "the concurrent history has no linearization under the sequential statement (initial list " + strings.ReplaceAll(init.list, linSep, " ") + "): " + strings.Join(desc, "; "), Op: len(s.plan.Ops)})
	case porcupine.Unknown:
		res.Count("probe:linearizability_timeout", 1) // inconclusive: never reported
	}
}

//go:norace
func (s *sim) run(src *simkit.Source, logOn bool) {
	k := kern.New(src)
	k.LogOn = logOn
	k.OpYields = 2000
	k.MaxSteps = 100000
	if s.plan.Tick {
		k.TickNs = 1
	}
	if s.plan.WallSteps {
		k.MonoTimes = true
	}
	s.k = k
	k.Install()
	defer k.Uninstall()
	p := s.plan
	uni = universe
	if p.Padded {
		uni = universePadded
	}
	src.Segment(0)
	s.opIdx = -1
	list := names(p.Init)
	unit := time.Millisecond
	if p.Fine {
		unit = 50 * time.Microsecond // 10 -> 0.5 ms, 20 -> 1 ms, 50 -> 2.5 ms, 70 -> 3.5 ms
	}
	mo := &model{list: list, r: time.Duration(p.RMs) * unit, d: time.Duration(p.DMs) * unit}
	s.mo = mo
	var err error
	// The options object is the caller's: once the constructor has returned the
	// caller reuses it for something else (another MultiEndpoint with other
	// timeouts); the MultiEndpoint built from it keeps the values it was given.
	opts := &multiendpoint.MultiEndpointOptions{
		Endpoints: s.callerList(withDup(list, p.InitDup)), RecoveryTimeout: mo.r, SwitchingDelay: mo.d}
	s.call("New", func() {
		s.me, err = multiendpoint.NewMultiEndpoint(opts)
	})
	s.scribble()
	s.reuseOptions(opts, mo.r, mo.d)
	if s.stop {
		s.finish()
		return
	}
	if err != nil || s.me == nil {
		s.vio("C13", "constructor-rejects-valid", "", fmt.Sprintf("NewMultiEndpoint(%v) = %v", list, err))
		s.finish()
		return
	}
	ms := []member{{st: map[string]epState{}, cur: list[0]}}
	for _, e := range list {
		ms = mo.newEndpointVariants(ms, e, 0)
	}
	for i := range ms {
		ms[i].cur = list[0]
	}
	mo.members = mo.dedupe(ms)
	s.prev = list[0]
	s.observe("init", false)

	if p.Concurrent {
		s.runConcurrent(src)
		s.finish()
		return
	}
	for i, o := range p.Ops {
		if s.stop || k.Aborting() {
			break
		}
		s.opIdx = i
		src.Segment(i + 1)
		s.exec(o)
	}
	if !s.stop && !k.Aborting() {
		s.opIdx = len(p.Ops)
		src.Segment(len(p.Ops) + 1)
		s.converge()
	}
	s.finish()
}

//go:norace
func (s *sim) exec(o Op) {
	now := s.k.Elapsed()
	mo := s.mo
	switch o.K {
	case OpAvail:
		e := uni[o.E%len(uni)]
		s.call("SetEndpointAvailability", func() { s.me.SetEndpointAvailability(e, o.Up) })
		if s.stop {
			return
		}
		s.res.Count("op:avail", 1)
		if idx(mo.list, e) < 0 {
			s.res.Count("fault:report_for_unknown_endpoint", 1)
		}
		if !s.drained() {
			s.res.Count("probe:api_call_inside_fired_not_run_window", 1)
		}
		before := mo.closure(mo.members, now, s.drained())
		if s.overflowed() {
			return
		}
		mo.members = mo.dedupe(mo.applyAvail(before, e, o.Up, now))
		s.observe(fmt.Sprintf("avail(%s,%v)", e, o.Up), true)
	case OpSetList:
		list := names(o.List)
		var err error
		arg := s.callerList(withDup(list, o.Dup))
		if o.Dup > 0 && len(list) > 0 {
			s.res.Count("fault:list_with_repeated_name", 1)
		}
		s.call("SetEndpoints", func() { err = s.me.SetEndpoints(arg) })
		s.scribble()
		if s.stop {
			return
		}
		s.res.Count("op:setlist", 1)
		if len(list) >= 13 {
			s.res.Count("probe:list_of_13_or_more_endpoints", 1)
			if mo.r > 0 {
				s.res.Count("probe:list_of_13_or_more_endpoints_under_recovery_timeout", 1)
			}
		}
		if len(list) == 0 {
			s.res.Count("fault:empty_endpoint_list", 1)
			if err == nil {
				s.vio("C13", "empty-list-accepted", "", "SetEndpoints([]) returned no error")
				return
			}
			s.observe("setlist([])", true)
			return
		}
		if err != nil {
			s.vio("C13", "valid-list-rejected", "", fmt.Sprintf("SetEndpoints(%v) = %v", list, err))
			return
		}
		if !s.drained() {
			s.res.Count("probe:api_call_inside_fired_not_run_window", 1)
		}
		before := mo.closure(mo.members, now, s.drained())
		if s.overflowed() {
			return
		}
		mo.members = mo.dedupe(mo.applySetList(before, list, now))
		s.observe(fmt.Sprintf("setlist(%v)", list), true)
	case OpAdvance:
		d := time.Duration(o.Ms) * time.Millisecond
		if due, ok := s.k.NextDue(true); ok && o.A >= 2 {
			until := time.Until(due)
			switch o.A {
			case 2:
				d = until
				s.res.Count("fault:advance_exactly_to_due", 1)
			case 3:
				d = until - time.Nanosecond
				s.res.Count("fault:advance_1ns_before_due", 1)
			case 4:
				d = until + time.Nanosecond
			}
		}
		if d < 0 {
			d = 0
		}
		s.res.Count("op:advance", 1)
		if s.plan.WallSteps && o.ID%3 == 0 {
			// the wall clock is stepped, back or forth, by seconds to hours; the
			// monotonic clock (the time that really passes) is not
			step := []time.Duration{-time.Second, -90 * time.Second, -2 * time.Hour, 30 * time.Second, 3 * time.Hour}[o.ID%5]
			s.k.WallSkew += step
			s.res.Count("fault:wall_clock_step", 1)
		}
		if o.Hold {
			held := s.k.AdvanceHold(d)
			s.held = append(s.held, held...)
			if len(held) > 0 {
				s.res.Count("fault:timer_fired_callback_held", len(held))
			}
			// nothing ran: statuses may or may not count as expired (closure at the next step)
			s.observe(fmt.Sprintf("advance-hold(%v)", d), false)
		} else {
			// release everything that fires, in seed-chosen order
			held := s.k.AdvanceHold(d)
			s.held = append(s.held, held...)
			s.releaseAll()
		}
	case OpRunTimer:
		var pend []*kern.Task
		for _, t := range s.held {
			if t.Held && t.State() != kern.Done {
				pend = append(pend, t)
			}
		}
		if len(pend) == 0 {
			return
		}
		t := pend[o.A%len(pend)]
		s.runTimer(t)
	}
}

//go:norace
func (s *sim) runTimer(t *kern.Task) {
	s.k.Release(t)
	s.k.Quiesce()
	s.kernelFailure()
	if s.stop {
		return
	}
	s.res.Count("op:timer_callback_run", 1)
	now := s.k.Elapsed()
	s.mo.members = s.mo.dedupe(s.mo.closure(s.mo.members, now, false))
	if s.overflowed() {
		return
	}
	s.observe("timer:"+t.Name, false)
}

//go:norace
func (s *sim) releaseAll() {
	for !s.stop {
		var pend []*kern.Task
		for _, t := range s.held {
			if t.Held && t.State() != kern.Done {
				pend = append(pend, t)
			}
		}
		if len(pend) == 0 {
			return
		}
		if len(pend) > 1 {
			s.res.Count("probe:simultaneous_timers_order_chosen", 1)
		}
		s.runTimer(pend[s.k.Choose("timer-run", len(pend))])
	}
}

// observe reads Current() and judges the step.
//
//go:norace
func (s *sim) observe(what string, api bool) {
	s.observe0(what, api)
	if !s.stop {
		s.k.Quiesce()
		s.kernelFailure()
	}
}

//go:norace
func (s *sim) observe0(what string, api bool) {
	if s.stop {
		return
	}
	mo := s.mo
	x := s.current()
	if s.stop {
		return
	}
	now := s.k.Elapsed()
	s.hist = append(s.hist, fmt.Sprintf("%v %s -> %s", now, what, x))
	s.k.Logf("obs %s -> current=%s members=%d", what, x, len(mo.members))
	facts := fmt.Sprintf("r=%v|d=%v", mo.r > 0, mo.d > 0)
	if idx(mo.list, x) < 0 {
		s.vio("C13", "current-not-in-list", facts, fmt.Sprintf("after %s Current()=%q, list %v", what, x, mo.list))
		return
	}
	if s.drained() {
		// every fired timer has run: every due expiry has been processed
		var keep []member
		for _, m := range mo.members {
			ok := true
			for _, e := range mo.list {
				if st := m.st[e]; st.kind == recovering && st.t <= now {
					ok = false
				}
			}
			if ok {
				keep = append(keep, m)
			}
		}
		if len(keep) > 0 {
			mo.members = keep
		} else {
			// all members still hold an unprocessed expiry: process them
			mo.members = mo.closure(mo.members, now, true)
			if s.overflowed() {
				return
			}
			keep = keep[:0]
			for _, m := range mo.members {
				ok := true
				for _, e := range mo.list {
					if st := m.st[e]; st.kind == recovering && st.t <= now {
						ok = false
					}
				}
				if ok {
					keep = append(keep, m)
				}
			}
			mo.members = keep
		}
	}
	if mo.d == 0 {
		var keep []member
		for _, m := range mo.members {
			if m.cur == x {
				keep = append(keep, m)
			}
		}
		if len(keep) == 0 {
			want := map[string]bool{}
			for _, m := range mo.members {
				want[m.cur] = true
			}
			msg := fmt.Sprintf("after %s Current()=%q; by the statement it must be one of %v (list %v, %s); history: %s", what, x, keysOf(want), mo.list, describe(mo), strings.Join(tail(s.hist, 8), "; "))
			s.vio("C13", "exact-rule", facts, msg)
			if mo.r > 0 {
				s.vio("C14", "recovery-window", facts, msg)
			}
			return
		}
		mo.members = keep
		s.res.States = append(s.res.States, hashStr(fmt.Sprint(len(mo.list), x, keep[0].key(mo.list))))
		s.prev = x
		return
	}
	// switching delay: constraints, violated only if violated under every member
	c := s.prev
	mo.members = splitAll(splitAll(mo.members, c), x)
	type verdict struct{ rule, msg string }
	var all []verdict
	okSome := false
	var keep []member
	for _, m := range mo.members {
		var v *verdict
		ci := idx(mo.list, c)
		xi := idx(mo.list, x)
		top := -1
		for i, e := range mo.list {
			if m.st[e].kind == available {
				top = i
				break
			}
		}
		if ci >= 0 {
			cs := m.st[c]
			switch {
			case x != c && api && (cs.kind == available || cs.kind == recovering):
				v = &verdict{"moved-inside-api-call", fmt.Sprintf("%s moved Current() from %q (still listed, %v) to %q although a switching delay is configured", what, c, kindName(cs.kind), x)}
			case x != c && cs.kind == available && xi > ci:
				v = &verdict{"available-to-lower-priority", fmt.Sprintf("%s moved Current() from available %q (priority %d) to lower-priority %q (priority %d)", what, c, ci, x, xi)}
			case x != c && cs.kind == recovering && cs.t > now && (top < 0 || top > ci):
				v = &verdict{"left-recovering-endpoint", fmt.Sprintf("%s moved Current() from %q, which is inside its recovery window and has no higher-priority available endpoint, to %q", what, c, x)}
			}
		}
		// known unavailable + some endpoint available => already switched
		if v == nil {
			xs := m.st[x]
			if xs.kind == unavailable && top >= 0 {
				v = &verdict{"known-unavailable-not-switched", fmt.Sprintf("after %s Current()=%q is unavailable while %q is available", what, x, mo.list[top])}
			}
		}
		if v == nil {
			okSome = true
			n := m.clone()
			n.cur = x
			keep = append(keep, n)
		} else {
			all = append(all, *v)
		}
	}
	if !okSome {
		v := all[0]
		prop := "C14"
		if v.rule == "known-unavailable-not-switched" {
			prop = "C13"
		}
		s.vio(prop, v.rule, facts, v.msg+fmt.Sprintf(" (list %v, %s); history: %s", mo.list, describe(mo), strings.Join(tail(s.hist, 10), "; ")))
		return
	}
	mo.members = mo.dedupe(keep)
	s.res.States = append(s.res.States, hashStr(fmt.Sprint(len(mo.list), x, keep[0].key(mo.list))))
	s.prev = x
}

// converge: inputs stop, every pending timer fires and runs; then Current() is
// the highest-priority available endpoint if any endpoint is available.
//
//go:norace
func (s *sim) converge() {
	for i := 0; i < 50 && !s.stop; i++ {
		s.releaseAll()
		if s.k.PendingOneShot() == 0 {
			break
		}
		held := s.k.AdvanceHold(time.Duration(s.plan.RMs+s.plan.DMs+1) * time.Millisecond)
		s.held = append(s.held, held...)
	}
	s.releaseAll()
	if s.stop {
		return
	}
	if s.k.PendingOneShot() != 0 {
		s.res.Harness = "converge: timers still pending after 50 rounds"
		return
	}
	mo := s.mo
	s.observe("converge", false)
	if s.stop {
		return
	}
	s.res.Count("probe:convergence_checked", 1)
	x := s.prev
	okSome := false
	want := ""
	for _, m := range mo.members {
		top, any := "", false // (the empty string is a name like any other)
		for _, e := range mo.list {
			if m.st[e].kind == available {
				top, any = e, true
				break
			}
		}
		if !any || top == x {
			okSome = true
		} else {
			want = top
		}
	}
	if !okSome {
		s.vio("C14", "no-convergence", fmt.Sprintf("r=%v|d=%v", mo.r > 0, mo.d > 0),
			fmt.Sprintf("all timers have fired and run, Current()=%q but the highest-priority available endpoint is %q (list %v, %s); history: %s", x, want, mo.list, describe(mo), strings.Join(tail(s.hist, 10), "; ")))
	}
}

// runConcurrent: API tasks and timer tasks interleaved at lock granularity;
// only schedule-independent oracles (membership, no panic, no deadlock), and
// the race detector in the -race build.
//
//go:norace
func (s *sim) runConcurrent(src *simkit.Source) {
	p := s.plan
	lists := [][]string{append([]string{}, s.mo.list...)}
	for i, o := range p.Ops {
		if s.stop || s.k.Aborting() {
			break
		}
		s.opIdx = i
		src.Segment(i + 1)
		o := o
		switch o.K {
		case OpAvail:
			e := uni[o.E%len(uni)]
			s.hint()
			h := s.linOp(&histOp{Kind: OpAvail, E: e, Up: o.Up})
			s.k.Spawn("SetEndpointAvailability", 0, nil, func() {
				kern.HBAcquire(&s.pub)
				s.me.SetEndpointAvailability(e, o.Up)
				s.linRet(h)
			})
		case OpSetList:
			l := names(o.List)
			if len(l) > 0 {
				lists = append(lists, l)
			}
			s.hint()
			h := s.linOp(&histOp{Kind: OpSetList, List: append([]string{}, l...)})
			s.k.Spawn("SetEndpoints", 0, nil, func() {
				kern.HBAcquire(&s.pub)
				err := s.me.SetEndpoints(append([]string{}, l...))
				h.Err = err != nil
				s.linRet(h)
			})
		case OpAdvance:
			s.k.Advance(time.Duration(o.Ms) * time.Millisecond)
		default:
			s.hint()
			h := s.linOp(&histOp{Kind: OpCurrent})
			s.k.Spawn("Current", 0, nil, func() {
				kern.HBAcquire(&s.pub)
				x := s.me.Current()
				h.Out = x
				s.linRet(h)
				ok := false
				for _, l := range lists {
					if idx(l, x) >= 0 {
						ok = true
					}
				}
				if !ok {
					panic("Current() returned an endpoint of no accepted list: " + x)
				}
			})
		}
		s.k.RunSteps(o.N)
		s.kernelFailure()
	}
	s.k.Quiesce()
	s.kernelFailure()
	if !s.stop {
		for _, t := range s.k.Blocked(kern.BlockedLock, kern.BlockedCond) {
			s.vio("C13", "deadlock", "", t.Name+" blocked at quiescence: "+kern.OwnerInfo(t.WaitLock()))
			break
		}
	}
	// final observation of the burst (pins the state the linearization must end in)
	if !s.stop {
		h := s.linOp(&histOp{Kind: OpCurrent})
		h.Out = s.current()
		s.linRet(h)
	}
	// Settling pass: after the concurrent burst the object must still behave by
	// the statement. The list is replaced and every endpoint reported serially,
	// all timers drain, then Current() is the highest-priority available
	// endpoint (if any) - whatever interleaving the burst took.
	if !s.stop {
		r := uint64(len(p.Ops))*2654435761 + uint64(p.RMs)*97 + uint64(p.DMs)
		final := names(p.Init)
		if len(lists) > 0 {
			final = lists[int(r%uint64(len(lists)))]
		}
		var err error
		s.call("SetEndpoints", func() { err = s.me.SetEndpoints(append([]string{}, final...)) })
		if !s.stop && err != nil {
			s.vio("C13", "valid-list-rejected", "settle", fmt.Sprintf("SetEndpoints(%v) = %v", final, err))
		}
		top, anyUp := "", false
		for i, e := range final {
			up := (r>>(uint(i)+3))&1 == 1
			if s.stop {
				break
			}
			e := e
			s.call("SetEndpointAvailability", func() { s.me.SetEndpointAvailability(e, up) })
			if up && !anyUp {
				top, anyUp = e, true
			}
		}
		for i := 0; i < 20 && !s.stop && s.k.PendingOneShot() > 0; i++ {
			s.k.Advance(time.Duration(p.RMs+p.DMs+1) * time.Millisecond)
			s.kernelFailure()
		}
		if !s.stop {
			x := s.current()
			switch {
			case s.stop:
			case idx(final, x) < 0:
				s.vio("C13", "current-not-in-list", "settle", fmt.Sprintf("after the concurrent burst and a serial settling pass Current()=%q, list %v", x, final))
			case anyUp && x != top:
				s.vio("C14", "no-convergence", "settle", fmt.Sprintf("after the concurrent burst, a serial settling pass and all timers, Current()=%q but the highest-priority available endpoint is %q (list %v)", x, top, final))
			}
			s.res.Count("probe:concurrent_settle_checked", 1)
		}
	}
	s.res.Count("op:concurrent_run", 1)
}

//go:norace
func (s *sim) finish() {
	k := s.k
	k.Shutdown()
	s.res.Steps = int(k.Steps())
	s.res.SimNanos = int64(k.Elapsed())
	s.res.Fingerprint = k.Fingerprint
	s.res.Switches, s.res.SwitchInOp = k.Switches, k.SwitchInOp
	s.res.Log = k.Log
	s.res.Count("ops", len(s.plan.Ops))
}

// hint gives the next spawned task a schedule-independent key derived from the
// current operation's stable id, so that recorded scheduling decisions survive
// the removal of other operations during shrinking.
//
//go:norace
//go:norace
func (s *sim) hint() {
	id := uint64(1000000 + s.opIdx + 1)
	if s.opIdx >= 0 && s.opIdx < len(s.plan.Ops) && s.plan.Ops[s.opIdx].ID != 0 {
		id = uint64(s.plan.Ops[s.opIdx].ID)
	}
	if s.hintOp != s.opIdx {
		s.hintOp, s.hintN = s.opIdx, 0
	}
	s.hintN++
	s.k.KeyHint = kern.MixKey(id, s.hintN)
}

//go:norace
func kindName(k stKind) string { return [...]string{"unavailable", "available", "recovering"}[k] }

//go:norace
func describe(mo *model) string {
	var parts []string
	for i, m := range mo.members {
		if i >= 3 {
			parts = append(parts, "...")
			break
		}
		var es []string
		for _, e := range mo.list {
			st := m.st[e]
			x := e + "=" + kindName(st.kind)
			if st.kind == recovering {
				x += fmt.Sprintf("(until %v)", st.t)
			}
			if st.fresh {
				x = e + fmt.Sprintf("=new(unavailable, or recovering until %v)", st.t)
			}
			es = append(es, x)
		}
		parts = append(parts, "{"+strings.Join(es, " ")+" cur="+m.cur+"}")
	}
	return "possible states " + strings.Join(parts, " ")
}

//go:norace
func keysOf(m map[string]bool) []string {
	var o []string
	for k := range m {
		o = append(o, k)
	}
	sort.Strings(o)
	return o
}

//go:norace
func tail(s []string, n int) []string {
	if len(s) > n {
		return s[len(s)-n:]
	}
	return s
}

//go:norace
func hashStr(s string) uint64 {
	h := uint64(1469598103934665603)
	for i := 0; i < len(s); i++ {
		h ^= uint64(s[i])
		h *= 1099511628211
	}
	return h
}

// ---------------------------------------------------------------- engine

type Engine struct{}

//go:norace
func (Engine) Name() string { return "mesim" }

//go:norace
func (Engine) Generate(r *rand.Rand, profile string, concurrent bool, avoid map[string]bool) simkit.Plan {
	return Generate(r, profile, concurrent)
}

//go:norace
func (Engine) Decode(b []byte) (simkit.Plan, error) {
	p := &Plan{}
	return p, json.Unmarshal(b, p)
}

//go:norace
func (Engine) Strategy(p simkit.Plan, r *rand.Rand) simkit.Strategy {
	pl := p.(*Plan)
	if !pl.Concurrent || pl.Strategy == 0 {
		return &simkit.RandomWalk{R: simkit.NewSM64(r.Uint64()), Stick: 0.6, Mix: 0.6}
	}
	if pl.Strategy >= 4 {
		return simkit.NewStall(simkit.NewSM64(r.Uint64()), 4+len(pl.Ops), 28, 0.7, 0.6)
	}
	return simkit.NewPCT(simkit.NewSM64(r.Uint64()), pl.Strategy, 40+len(pl.Ops)*8, 0.6)
}

//go:norace
func (Engine) Run(t *testing.T, p simkit.Plan, src *simkit.Source, log bool) *simkit.Result {
	return Run(t, p.(*Plan), src, log)
}

//go:norace
func (Engine) NOps(p simkit.Plan) int { return len(p.(*Plan).Ops) }

//go:norace
func (Engine) Remove(p simkit.Plan, i, j int) simkit.Plan {
	c := p.(*Plan).Clone()
	c.Ops = append(c.Ops[:i], c.Ops[j:]...)
	return c
}

//go:norace
func (Engine) Simplify(p simkit.Plan) []simkit.Plan {
	pl := p.(*Plan)
	var out []simkit.Plan
	add := func(f func(c *Plan) bool) {
		c := pl.Clone()
		if f(c) {
			out = append(out, c)
		}
	}
	add(func(c *Plan) bool { ch := c.Concurrent; c.Concurrent = false; return ch })
	add(func(c *Plan) bool { ch := c.RMs != 0; c.RMs = 0; return ch })
	add(func(c *Plan) bool { ch := c.DMs != 0; c.DMs = 0; return ch })
	add(func(c *Plan) bool { ch := len(c.Init) > 1; c.Init = c.Init[:len(c.Init)-1]; return ch })
	for i, o := range pl.Ops {
		i := i
		if o.Hold {
			add(func(c *Plan) bool { c.Ops[i].Hold = false; return true })
		}
		if o.K == OpSetList && len(o.List) > 1 {
			add(func(c *Plan) bool { c.Ops[i].List = c.Ops[i].List[:len(c.Ops[i].List)-1]; return true })
		}
		if o.K == OpAdvance && o.A != 0 {
			add(func(c *Plan) bool { c.Ops[i].A = 0; return true })
		}
		if o.N != 0 {
			add(func(c *Plan) bool { c.Ops[i].N = 0; return true })
		}
	}
	return out
}

//go:norace
func (Engine) Relevant(res *simkit.Result, prop string) bool {
	return res.Counters["op:avail"]+res.Counters["op:setlist"]+res.Counters["op:concurrent_run"] > 0
}
