package simkit

import (
	"fmt"
	"sort"
	"strings"
	"testing"
	"testing/synctest"

	"verif.local/vsync/kern"
)

// Violation is one oracle verdict.
type Violation struct {
	Property string `json:"property"`
	Rule     string `json:"rule"`
	Sig      string `json:"sig"` // property|rule|discriminating facts; stable across edits
	Msg      string `json:"msg"`
	Op       int    `json:"op"` // index of the plan operation at which it was detected
}

func (v Violation) String() string { return fmt.Sprintf("%s [%s] %s", v.Property, v.Sig, v.Msg) }

// Result of executing one plan.
type Result struct {
	Violations  []Violation    `json:"violations,omitempty"`
	Harness     string         `json:"harness,omitempty"` // non-empty: harness trouble, never a violation
	Tape        *Tape          `json:"tape,omitempty"`
	Log         []string       `json:"log,omitempty"`
	Counters    map[string]int `json:"counters,omitempty"`
	Fingerprint uint64         `json:"fingerprint"`
	States      []uint64       `json:"-"`
	Steps       int            `json:"steps"`
	SimNanos    int64          `json:"sim_ns"`
	Switches    int            `json:"switches"`
	SwitchInOp  int            `json:"switch_in_op"`
}

func (r *Result) Count(name string, d int) {
	if r.Counters == nil {
		r.Counters = map[string]int{}
	}
	r.Counters[name] += d
}

// First returns the first violation of the given property ("" = any).
func (r *Result) First(prop string) *Violation {
	for i := range r.Violations {
		if prop == "" || r.Violations[i].Property == prop {
			return &r.Violations[i]
		}
	}
	return nil
}

// Bubble runs f inside a synctest bubble and converts the end-of-bubble
// deadlock panic (goroutines left blocked) into a harness error string.
func Bubble(t *testing.T, f func()) (harness string) {
	run := func(t *testing.T) {
		defer func() {
			if r := recover(); r != nil {
				harness = fmt.Sprintf("bubble: %v", r)
			}
		}()
		synctest.Test(t, func(t *testing.T) { f() })
	}
	if kern.RaceBuild {
		// A race report makes the testing package fail the test that ran the
		// bubble (FailNow): give every run its own subtest so the search goes on.
		t.Run("run", run)
		return harness
	}
	run(t)
	return harness
}

// verbosity is the gRPC log verbosity of the current run (0 or 99). Plain
// memory: a worker executes one run at a time and sets it before the run's
// first task exists. In race-detector builds a verbose run can hide a race
// (formatting log arguments goes through fmt's pools, which the detector treats
// as synchronisation) but never invents one, and only a verbose run executes
// the code under log.V(..): the verbose fraction of the runs is kept there too.
var verbosity int

//go:norace
func SetVerbose(on bool) {
	verbosity = 0
	if on {
		verbosity = 99
	}
}

//go:norace
func VerboseLogs(l int) bool { return l <= verbosity }

// FuncOfStack extracts the innermost function of the code under test from a
// stack trace (for panic / deadlock signatures): function names, not lines.
func FuncOfStack(stack string, pkgHints ...string) string {
	if len(pkgHints) == 0 {
		pkgHints = []string{"grpc-gcp-go/grpcgcp"}
	}
	for _, ln := range strings.Split(stack, "\n") {
		ln = strings.TrimSpace(ln)
		if strings.HasPrefix(ln, "/") || ln == "" {
			continue
		}
		for _, h := range pkgHints {
			if i := strings.Index(ln, h); i >= 0 {
				fn := ln[i+len(h):]
				if j := strings.LastIndex(fn, "("); j > 0 {
					fn = fn[:j]
				}
				fn = strings.TrimPrefix(fn, ".")
				fn = strings.TrimPrefix(fn, "/")
				// closures: strip .funcN suffixes' numbers for stability
				return fn
			}
		}
	}
	return "?"
}

// SortedKeys returns the keys of m sorted (the harness never iterates a map
// without sorting).
func SortedKeys[V any](m map[string]V) []string {
	ks := make([]string, 0, len(m))
	for k := range m {
		ks = append(ks, k)
	}
	sort.Strings(ks)
	return ks
}
