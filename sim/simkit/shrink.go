package simkit

import "time"

// Candidate is a (plan, tape) pair the shrinker can transform.
type Candidate[P any] struct {
	Plan P
	Tape *Tape
}

// Shrinker minimises a failing candidate while the same signature persists.
type Shrinker[P any] struct {
	// NOps returns the number of removable operations of the plan.
	NOps func(p P) int
	// Remove returns a copy of the plan without operations [i,j).
	Remove func(p P, i, j int) P
	// Simplify returns simpler variants of the plan (smaller arguments, simpler
	// operations, smaller configuration); may be nil.
	Simplify func(p P) []P
	// Run executes the candidate and reports whether the signature reproduces.
	Run func(c Candidate[P]) bool
	// SegOffset is the tape segment of operation 0 (segment 0 is setup).
	SegOffset int
	Budget    time.Duration
	Tries     int
}

func (s *Shrinker[P]) removeSegs(t *Tape, i, j int) *Tape {
	c := t.Clone()
	lo, hi := i+s.SegOffset, j+s.SegOffset
	if lo >= len(c.Segs) {
		return c
	}
	if hi > len(c.Segs) {
		hi = len(c.Segs)
	}
	c.Segs = append(c.Segs[:lo], c.Segs[hi:]...)
	return c
}

// Shrink runs delta-debugging on the operation list, then simplifies the tape
// (fewer context switches: zero entries, truncate segments), then arguments.
func (s *Shrinker[P]) Shrink(c Candidate[P]) Candidate[P] {
	deadline := time.Now().Add(s.Budget)
	try := func(n Candidate[P]) bool {
		if time.Now().After(deadline) {
			return false
		}
		s.Tries++
		return s.Run(n)
	}
	for round := 0; round < 6 && time.Now().Before(deadline); round++ {
		changed := false
		// 1. drop chunks of operations
		// (every loop stops at the deadline: building the candidates of a plan of
		// thousands of operations costs as much as running them)
		for chunk := s.NOps(c.Plan); chunk >= 1 && time.Now().Before(deadline); chunk /= 2 {
			for i := 0; i+chunk <= s.NOps(c.Plan) && time.Now().Before(deadline); {
				n := Candidate[P]{Plan: s.Remove(c.Plan, i, i+chunk), Tape: s.removeSegs(c.Tape, i, i+chunk)}
				if try(n) {
					c = n
					changed = true
				} else {
					i += chunk
				}
			}
		}
		// 2. tape: all zero, then per segment zero, then single entries
		if c.Tape.NonZero() > 0 {
			z := c.Tape.Clone()
			for i := range z.Segs {
				z.Segs[i] = nil
			}
			if try(Candidate[P]{Plan: c.Plan, Tape: z}) {
				c.Tape = z
				changed = true
			} else {
				for i := range c.Tape.Segs {
					if len(c.Tape.Segs[i]) == 0 {
						continue
					}
					if time.Now().After(deadline) {
						break
					}
					z := c.Tape.Clone()
					z.Segs[i] = nil
					if try(Candidate[P]{Plan: c.Plan, Tape: z}) {
						c.Tape = z
						changed = true
						continue
					}
					// truncate from the end, then zero single entries
					for cut := len(c.Tape.Segs[i]) / 2; cut >= 1; cut /= 2 {
						for len(c.Tape.Segs[i]) >= cut {
							z := c.Tape.Clone()
							z.Segs[i] = z.Segs[i][:len(z.Segs[i])-cut]
							if !try(Candidate[P]{Plan: c.Plan, Tape: z}) {
								break
							}
							c.Tape = z
							changed = true
						}
					}
					for j := range c.Tape.Segs[i] {
						if c.Tape.Segs[i][j] == 0 {
							continue
						}
						if time.Now().After(deadline) {
							break
						}
						z := c.Tape.Clone()
						z.Segs[i][j] = 0
						if try(Candidate[P]{Plan: c.Plan, Tape: z}) {
							c.Tape = z
							changed = true
						}
					}
				}
			}
		}
		// 3. simplify arguments
		if s.Simplify != nil {
			for again := true; again && time.Now().Before(deadline); {
				again = false
				for _, p := range s.Simplify(c.Plan) {
					if try(Candidate[P]{Plan: p, Tape: c.Tape}) {
						c.Plan = p
						changed, again = true, true
						break
					}
				}
			}
		}
		if !changed {
			break
		}
	}
	return c
}
