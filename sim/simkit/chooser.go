// Package simkit holds what every engine shares: decision sources (seeded
// strategies, recording, tape replay), the bubble runner, violations, the
// shrinker and evidence fragments.
package simkit

import (
	"math/rand/v2"

	"verif.local/vsync/kern"
)

// SM64 is a splitmix64 generator used for decisions that are drawn on task
// goroutines (map order, select order): it must be invisible to the race
// detector, which math/rand's instrumented state is not.
type SM64 struct{ s uint64 }

//go:norace
func NewSM64(seed uint64) *SM64 { return &SM64{s: seed} }

//go:norace
func (r *SM64) Uint64() uint64 {
	r.s += 0x9e3779b97f4a7c15
	z := r.s
	z = (z ^ (z >> 30)) * 0xbf58476d1ce4e5b9
	z = (z ^ (z >> 27)) * 0x94d049bb133111eb
	return z ^ (z >> 31)
}

//go:norace
func (r *SM64) IntN(n int) int {
	if n <= 1 {
		return 0
	}
	return int(r.Uint64() % uint64(n))
}

//go:norace
func (r *SM64) Float64() float64 { return float64(r.Uint64()>>11) / (1 << 53) }

// NewRand returns the PRNG every choice of a run is derived from.
//
//go:norace
func NewRand(seed uint64, stream uint64) *rand.Rand {
	return rand.New(rand.NewPCG(seed, stream^0x9e3779b97f4a7c15))
}

// Tape is a recorded decision list, split in segments (one per plan operation,
// plus segment 0 for setup and the last one for the heal phase) so that
// removing an operation during shrinking removes exactly its decisions.
type Tape struct {
	Segs [][]int64 `json:"segs"`
}

//go:norace
func (t *Tape) Len() int {
	n := 0
	for _, s := range t.Segs {
		n += len(s)
	}
	return n
}

//go:norace
func (t *Tape) NonZero() int {
	n := 0
	for _, s := range t.Segs {
		for _, v := range s {
			if v != 0 {
				n++
			}
		}
	}
	return n
}

//go:norace
func (t *Tape) Clone() *Tape {
	c := &Tape{Segs: make([][]int64, len(t.Segs))}
	for i, s := range t.Segs {
		c.Segs[i] = append([]int64(nil), s...)
	}
	return c
}

// Strategy produces decisions from the seed.
type Strategy interface {
	Task(cands []*kern.Task) int
	N(kind string, n int) int
}

// Source is the kern.Chooser of a run: either a strategy whose outputs are
// recorded, or a tape being replayed (exhausted segment => 0, i.e. "keep
// running the same task / canonical order").
type Source struct {
	strat  Strategy
	replay *Tape
	rec    Tape
	seg    int
	pos    int
	Draws  int
}

//go:norace
func NewSearch(s Strategy) *Source { return &Source{strat: s, rec: Tape{Segs: [][]int64{nil}}} }

//go:norace
func NewReplay(t *Tape) *Source { return &Source{replay: t, rec: Tape{Segs: [][]int64{nil}}} }

// Segment switches to decision segment i (monotonically increasing).
//
//go:norace
func (s *Source) Segment(i int) {
	for len(s.rec.Segs) <= i {
		s.rec.Segs = append(s.rec.Segs, nil)
	}
	s.seg, s.pos = i, 0
}

//go:norace
func (s *Source) next(n int, draw func() int) int {
	s.Draws++
	v := 0
	if s.replay != nil {
		if s.seg < len(s.replay.Segs) && s.pos < len(s.replay.Segs[s.seg]) {
			x := s.replay.Segs[s.seg][s.pos]
			if x < 0 {
				x = 0
			}
			v = int(x % int64(n))
		}
		s.pos++
	} else {
		v = draw()
	}
	s.rec.Segs[s.seg] = Push64(s.rec.Segs[s.seg], int64(v))
	return v
}

// Task records and replays scheduling decisions by task KEY (operation id +
// creation ordinal), not by position in the runnable list: removing operations
// while shrinking leaves the remaining decisions meaningful. Entry 0 = "keep
// running the same task / lowest id".
//
//go:norace
func (s *Source) Task(cands []*kern.Task) int {
	s.Draws++
	v := 0
	if s.replay != nil {
		if s.seg < len(s.replay.Segs) && s.pos < len(s.replay.Segs[s.seg]) {
			if x := uint64(s.replay.Segs[s.seg][s.pos]); x != 0 {
				for i, c := range cands {
					if c.Key == x {
						v = i
						break
					}
				}
			}
		}
		s.pos++
	} else {
		v = s.strat.Task(cands)
		if v < 0 || v >= len(cands) {
			v = 0
		}
	}
	rec := int64(0)
	if v != 0 {
		rec = int64(cands[v].Key)
	}
	s.rec.Segs[s.seg] = Push64(s.rec.Segs[s.seg], rec)
	return v
}

//go:norace
func (s *Source) N(kind string, n int) int {
	return s.next(n, func() int { return s.strat.N(kind, n) })
}

// Push64 appends without the runtime's race hooks (decisions are drawn on task
// goroutines too).
//
//go:norace
func Push64(s []int64, v int64) []int64 {
	if len(s) == cap(s) {
		n := make([]int64, len(s), 2*cap(s)+8)
		for i := range s {
			n[i] = s[i]
		}
		s = n
	}
	s = s[:len(s)+1]
	s[len(s)-1] = v
	return s
}

// Recorded returns the decisions actually taken.
//
//go:norace
func (s *Source) Recorded() *Tape { return s.rec.Clone() }

// ---------------------------------------------------------------- strategies

// RandomWalk keeps running the same task with probability Stick, otherwise
// picks uniformly; other decisions are uniform with probability Mix, else 0.
type RandomWalk struct {
	R     *SM64
	Stick float64
	Mix   float64
}

//go:norace
func (w *RandomWalk) Task(cands []*kern.Task) int {
	if len(cands) > 1 && cands[0].Handoff {
		// the running task is at a lock operation on a lock others are waiting for
		// (it released it, or is about to take it again): half of the time one of the
		// others goes first - windows in which a lock is dropped for a moment are as
		// wide as one decision
		if w.R.IntN(2) == 0 {
			return 1 + w.R.IntN(len(cands)-1)
		}
		return 0
	}
	if w.R.Float64() < w.Stick {
		return 0
	}
	return w.R.IntN(len(cands))
}

//go:norace
func (w *RandomWalk) N(kind string, n int) int {
	if w.R.Float64() < w.Mix {
		return w.R.IntN(n)
	}
	return 0
}

// PCT is the probabilistic concurrency testing scheduler: random task
// priorities, D priority change points over an expected horizon of K steps.
type PCT struct {
	R      *SM64
	D      int
	K      int
	Mix    float64
	step   int
	change map[int]bool
	next   int
	low    int
}

//go:norace
func NewPCT(r *SM64, d, k int, mix float64) *PCT {
	p := &PCT{R: r, D: d, K: k, Mix: mix, change: map[int]bool{}, next: 1 << 20}
	for i := 0; i < d; i++ {
		p.change[1+r.IntN(k)] = true
	}
	return p
}

//go:norace
func (p *PCT) Task(cands []*kern.Task) int {
	p.step++
	for _, t := range cands {
		if t.Prio == 0 {
			t.Prio = 1000 + p.R.IntN(1<<20)
		}
	}
	best := 0
	for i, t := range cands {
		if t.Prio > cands[best].Prio {
			best = i
		}
	}
	if p.change[p.step] {
		p.low++
		cands[best].Prio = p.low // lowest so far (all initial priorities are >= 1000)
		best = 0
		for i, t := range cands {
			if t.Prio > cands[best].Prio {
				best = i
			}
		}
	}
	return best
}

//go:norace
func (p *PCT) N(kind string, n int) int {
	if p.R.Float64() < p.Mix {
		return p.R.IntN(n)
	}
	return 0
}

// Stall is a mostly sequential scheduler with one long preemption: a victim
// task (the V-th task the scheduler ever sees) is suspended when it has been
// run J times - i.e. at its J-th yield point, a position counted in the
// victim's OWN steps, not in global ones - and is not run again until M other
// decisions have been taken or nothing else can run. "A goroutine is descheduled
// between two adjacent statements while a whole refresh / update / burst of
// other calls happens" is one draw of (V, J) here; for PCT it is one global step
// out of the horizon, an order of magnitude less likely.
type Stall struct {
	R       *SM64
	Stick   float64
	Mix     float64
	V, J, M int
	seen    map[uint64]int
	nSeen   int
	runs    int
	stalled bool
	left    int
	victim  uint64
	cur     uint64
}

//go:norace
func NewStall(r *SM64, maxTasks, maxYields int, stick, mix float64) *Stall {
	return &Stall{R: r, Stick: stick, Mix: mix, V: r.IntN(maxTasks), J: 1 + r.IntN(maxYields), M: 20 + r.IntN(400), seen: map[uint64]int{}}
}

//go:norace
func (s *Stall) Task(cands []*kern.Task) int {
	for _, t := range cands {
		if _, ok := s.seen[t.Key]; !ok {
			s.seen[t.Key] = s.nSeen
			if s.nSeen == s.V {
				s.victim = t.Key
			}
			s.nSeen++
		}
	}
	if s.stalled {
		s.left--
		if s.left <= 0 {
			s.stalled = false
		}
	}
	pick := -1
	if s.R.Float64() < s.Stick {
		// keep running the current task when it is still a candidate
		for i, t := range cands {
			if t.Key == s.cur {
				pick = i
			}
		}
	}
	if pick < 0 {
		pick = s.R.IntN(len(cands))
	}
	if s.stalled && cands[pick].Key == s.victim && len(cands) > 1 {
		// anyone but the victim
		o := s.R.IntN(len(cands) - 1)
		for i := range cands {
			if cands[i].Key == s.victim {
				continue
			}
			if o == 0 {
				pick = i
				break
			}
			o--
		}
	}
	if cands[pick].Key == s.victim && s.victim != 0 && !s.stalled && s.runs >= 0 {
		s.runs++
		if s.runs == s.J {
			s.stalled, s.left = true, s.M
			s.runs = -1 << 30 // once
		}
	}
	s.cur = cands[pick].Key
	return pick
}

//go:norace
func (s *Stall) N(kind string, n int) int {
	if s.R.Float64() < s.Mix {
		return s.R.IntN(n)
	}
	return 0
}
