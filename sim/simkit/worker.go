package simkit

import (
	"crypto/sha256"
	"encoding/binary"
	"encoding/json"
	"fmt"
	"math/rand/v2"
	"os"
	"path/filepath"
	"sort"
	"strconv"
	"strings"
	"sync/atomic"
	"testing"
	"time"

	"verif.local/vsync/kern"
)

// Plan is an engine-specific, JSON-marshallable description of a run.
type Plan interface{}

// Engine is what the generic worker needs from an engine.
type Engine interface {
	Name() string
	Generate(r *rand.Rand, profile string, concurrent bool, avoid map[string]bool) Plan
	Decode(b []byte) (Plan, error)
	Strategy(p Plan, r *rand.Rand) Strategy
	Run(t *testing.T, p Plan, src *Source, log bool) *Result
	NOps(p Plan) int
	Remove(p Plan, i, j int) Plan
	Simplify(p Plan) []Plan
	// Relevant reports whether the run exercised the property at all.
	Relevant(res *Result, prop string) bool
}

// Replay is the replay file: everything needed to re-execute one failing run
// exactly (no PRNG involved).
type Replay struct {
	Engine      string          `json:"engine"`
	Property    string          `json:"property"`
	Sig         string          `json:"sig"`
	Msg         string          `json:"msg"`
	Seed        uint64          `json:"seed"`
	Iter        uint64          `json:"iter"`
	Profile     string          `json:"profile"`
	Plan        json.RawMessage `json:"plan"`
	Tape        *Tape           `json:"tape"`
	OrigOps     int             `json:"orig_ops"`
	OrigTape    int             `json:"orig_tape_nonzero"`
	ShrunkOps   int             `json:"shrunk_ops"`
	ShrunkTape  int             `json:"shrunk_tape_nonzero"`
	ShrinkTries int             `json:"shrink_tries"`
	Counters    map[string]int  `json:"counters,omitempty"`
	Log         []string        `json:"log,omitempty"`
}

type ViolationRec struct {
	Property string `json:"property"`
	Sig      string `json:"sig"`
	Msg      string `json:"msg"`
	Replay   string `json:"replay"`
	Seed     uint64 `json:"seed"`
	Iter     uint64 `json:"iter"`
	Count    int    `json:"count"`
}

// Fragment is what one worker process reports to the driver.
type Fragment struct {
	Engine     string            `json:"engine"`
	Profile    string            `json:"profile"`
	Property   string            `json:"property"`
	Seed       uint64            `json:"seed"`
	Runs       int               `json:"runs"`
	RunsConc   int               `json:"runs_concurrent"`
	Relevant   int               `json:"relevant_runs"`
	Nontrivial int               `json:"nontrivial_runs"`
	WallS      float64           `json:"wall_s"`
	SimNanos   int64             `json:"sim_ns"`
	Steps      int64             `json:"steps"`
	Switches   int64             `json:"switches"`
	Counters   map[string]int    `json:"counters"`
	Violations []ViolationRec    `json:"violations"`
	OtherProps map[string]int    `json:"aborted_by"`
	OtherSigs  map[string]int    `json:"other_sigs"`
	Harness    []string          `json:"harness"`
	Samples    []json.RawMessage `json:"samples"`
	FPFile     string            `json:"fp_file"`
	StateFile  string            `json:"state_file"`
	Strategies map[string]int    `json:"strategies"`
	EarlyExit  string            `json:"early_exit,omitempty"` // "rss": resident memory reached SIM_RSS_LIMIT_MB
}

type WorkerCfg struct {
	Profile      string
	Property     string
	Seed         uint64
	Budget       time.Duration
	MaxRuns      int
	ConcPct      int // percentage of runs in concurrent mode
	Out          string
	ReplayDir    string
	Avoid        map[string]bool // generator avoidance switches
	KnownSigs    map[string]bool // signatures already listed: do not shrink them again
	ShrinkBudget time.Duration
	FPCap        int
	race         *RaceWatcher
}

func getenv(k, d string) string {
	if v := os.Getenv(k); v != "" {
		return v
	}
	return d
}

// CfgFromEnv reads the worker configuration from SIM_* variables.
func CfgFromEnv() WorkerCfg {
	c := WorkerCfg{Profile: getenv("SIM_PROFILE", ""), Property: getenv("SIM_PROP", ""), Out: getenv("SIM_OUT", ""), ReplayDir: getenv("SIM_REPLAY_DIR", "/verif/replays")}
	c.Seed, _ = strconv.ParseUint(getenv("SIM_SEED", "1"), 10, 64)
	c.Budget, _ = time.ParseDuration(getenv("SIM_BUDGET", "5s"))
	c.MaxRuns, _ = strconv.Atoi(getenv("SIM_MAXRUNS", "0"))
	c.ConcPct, _ = strconv.Atoi(getenv("SIM_CONC", "0"))
	c.ShrinkBudget, _ = time.ParseDuration(getenv("SIM_SHRINK", "20s"))
	c.FPCap, _ = strconv.Atoi(getenv("SIM_FPCAP", "150000"))
	c.Avoid = map[string]bool{}
	for _, a := range strings.Split(getenv("SIM_AVOID", ""), ",") {
		if a != "" {
			c.Avoid[a] = true
		}
	}
	c.KnownSigs = map[string]bool{}
	if f := getenv("SIM_KNOWN_SIGS", ""); f != "" {
		if b, err := os.ReadFile(f); err == nil {
			for _, l := range strings.Split(string(b), "\n") {
				if l = strings.TrimSpace(l); l != "" {
					c.KnownSigs[l] = true
				}
			}
		}
	}
	return c
}

func hash64(b []byte) uint64 {
	h := sha256.Sum256(b)
	return binary.LittleEndian.Uint64(h[:8])
}

// RunWorker is the search loop of one worker process.
func RunWorker(t *testing.T, eng Engine, cfg WorkerCfg) *Fragment {
	fr := &Fragment{Engine: eng.Name(), Profile: cfg.Profile, Property: cfg.Property, Seed: cfg.Seed,
		Counters: map[string]int{}, OtherProps: map[string]int{}, OtherSigs: map[string]int{}, Strategies: map[string]int{}}
	start := time.Now()
	fps := map[uint64]struct{}{}
	states := map[uint64]struct{}{}
	seenSig := map[string]*ViolationRec{}
	rw := NewRaceWatcher()
	fmt.Printf("worker engine=%s profile=%s property=%s VERIF_SEED=%d budget=%v\n", eng.Name(), cfg.Profile, cfg.Property, cfg.Seed, cfg.Budget)
	var curIter atomic.Uint64
	stopWD := StartWatchdog(&beat, func(uint64) {
		iter := curIter.Load() - 1
		// A single run did not finish in wall-clock time: a loop without any yield
		// point (the kernel cannot see it). Record which run and die; the driver
		// re-executes that run in fresh processes before reporting anything.
		rec := map[string]any{"engine": eng.Name(), "profile": cfg.Profile, "seed": cfg.Seed, "iter": iter, "conc_pct": cfg.ConcPct}
		b, _ := json.Marshal(rec)
		if cfg.Out != "" {
			os.WriteFile(cfg.Out+".hang", b, 0o644)
		}
		fmt.Printf("WATCHDOG run seed=%d iter=%d did not finish\n", cfg.Seed, iter)
		os.Exit(3)
	})
	defer stopWD()
	startIter, _ := strconv.ParseUint(getenv("SIM_ITER", "0"), 10, 64)
	rssLimit, _ := strconv.Atoi(getenv("SIM_RSS_LIMIT_MB", "0"))
	for iter := startIter; ; iter++ {
		curIter.Store(iter + 1)
		if cfg.MaxRuns > 0 && fr.Runs >= cfg.MaxRuns {
			break
		}
		if time.Since(start) > cfg.Budget {
			break
		}
		if rssLimit > 0 && iter&63 == 63 && rssMB() > rssLimit {
			// the race runtime (and the Go heap after very large runs) only grows:
			// stop here, the driver continues this slot in a fresh process
			fr.EarlyExit = "rss"
			break
		}
		r := NewRand(cfg.Seed, iter)
		conc := int(r.IntN(100)) < cfg.ConcPct
		plan := eng.Generate(r, cfg.Profile, conc, cfg.Avoid)
		src := NewSearch(eng.Strategy(plan, r))
		beat.Add(1)
		res := eng.Run(t, plan, src, false)
		if rw != nil {
			rw.Check(res)
		}
		fr.Runs++
		if conc {
			fr.RunsConc++
		}
		fr.SimNanos += res.SimNanos
		fr.Steps += int64(res.Steps)
		fr.Switches += int64(res.Switches)
		for k, v := range res.Counters {
			fr.Counters[k] += v
		}
		if res.Harness != "" {
			pj, _ := json.Marshal(plan)
			fr.Harness = append(fr.Harness, fmt.Sprintf("seed=%d iter=%d: %s plan=%s", cfg.Seed, iter, res.Harness, pj))
			if len(fr.Harness) > 3 {
				break
			}
			continue
		}
		rel := eng.Relevant(res, cfg.Property)
		if rel {
			fr.Relevant++
			faults := 0
			for k, v := range res.Counters {
				if strings.HasPrefix(k, "fault:") {
					faults += v
				}
			}
			if faults > 0 || res.SwitchInOp > 0 {
				fr.Nontrivial++
				if len(fps) < cfg.FPCap {
					pj, _ := json.Marshal(plan)
					fps[hash64(pj)^res.Fingerprint] = struct{}{}
				}
			}
		}
		if len(states) < cfg.FPCap {
			for _, s := range res.States {
				states[s] = struct{}{}
			}
		}
		if len(fr.Samples) < 2 && rel {
			pj, _ := json.Marshal(plan)
			fr.Samples = append(fr.Samples, pj)
		}
		for _, v := range res.Violations {
			if v.Property != cfg.Property {
				fr.OtherProps[v.Property]++
				fr.OtherSigs[v.Sig]++
			}
		}
		v := res.First(cfg.Property)
		if v == nil {
			continue
		}
		if rec := seenSig[v.Sig]; rec != nil {
			rec.Count++
			continue
		}
		rec := &ViolationRec{Property: v.Property, Sig: v.Sig, Msg: v.Msg, Seed: cfg.Seed, Iter: iter, Count: 1}
		seenSig[v.Sig] = rec
		if cfg.KnownSigs[v.Sig] {
			rec.Replay = "(known)"
			continue
		}
		// Shrink and write the replay file.
		cfg.race = rw
		rp := ShrinkAndWrite(t, eng, plan, res, *v, cfg, iter)
		rec.Replay = rp
		fmt.Printf("found %s seed=%d iter=%d replay=%s\n", v.Sig, cfg.Seed, iter, rp)
	}
	fr.WallS = time.Since(start).Seconds()
	sigs := make([]string, 0, len(seenSig))
	for s := range seenSig {
		sigs = append(sigs, s)
	}
	sort.Strings(sigs)
	for _, s := range sigs {
		fr.Violations = append(fr.Violations, *seenSig[s])
	}
	if cfg.Out != "" {
		fr.FPFile, fr.StateFile = cfg.Out+".fp", cfg.Out+".st"
		writeSet(fr.FPFile, fps)
		writeSet(fr.StateFile, states)
		b, _ := json.Marshal(fr)
		os.WriteFile(cfg.Out, b, 0o644)
	}
	return fr
}

func writeSet(path string, s map[uint64]struct{}) {
	buf := make([]byte, 0, 8*len(s))
	for k := range s {
		buf = binary.LittleEndian.AppendUint64(buf, k)
	}
	os.WriteFile(path, buf, 0o644)
}

// ShrinkAndWrite minimises a failing (plan, tape) and writes the replay file.
func ShrinkAndWrite(t *testing.T, eng Engine, plan Plan, res *Result, v Violation, cfg WorkerCfg, iter uint64) string {
	sh := &Shrinker[Plan]{
		NOps:     eng.NOps,
		Remove:   eng.Remove,
		Simplify: eng.Simplify,
		Run: func(c Candidate[Plan]) bool {
			beat.Add(1)
			r := eng.Run(t, c.Plan, NewReplay(c.Tape), false)
			if rw := cfg.race; rw != nil {
				rw.Check(r)
			}
			if r.Harness != "" {
				return false
			}
			for _, x := range r.Violations {
				if x.Sig == v.Sig {
					return true
				}
			}
			return false
		},
		SegOffset: 1,
		Budget:    cfg.ShrinkBudget,
	}
	orig := Candidate[Plan]{Plan: plan, Tape: res.Tape}
	// The recorded tape must reproduce the failure by itself.
	reproduced := false
	for try := 0; try < 3 && !reproduced; try++ {
		reproduced = sh.Run(orig)
	}
	if !reproduced {
		// Not reproducible inside this process: harness nondeterminism - or state the
		// library keeps for the life of the process (a first-use race, a cache that
		// is warm now). The unshrunk (plan, tape) is written all the same, marked:
		// the driver replays it in a fresh process and believes it only if the same
		// signature shows up there.
		pj, _ := json.Marshal(plan)
		rp := Replay{Engine: eng.Name(), Property: v.Property, Sig: v.Sig, Msg: v.Msg + " [did not reproduce inside the worker process that found it: not minimised]", Seed: cfg.Seed, Iter: iter, Profile: cfg.Profile,
			Plan: pj, Tape: res.Tape, OrigOps: eng.NOps(plan), OrigTape: res.Tape.NonZero(), ShrunkOps: eng.NOps(plan), ShrunkTape: res.Tape.NonZero()}
		os.MkdirAll(cfg.ReplayDir, 0o755)
		name := fmt.Sprintf("%s-%016x-s%d-i%d-unshrunk.json", v.Property, hash64([]byte(v.Sig)), cfg.Seed, iter)
		path := filepath.Join(cfg.ReplayDir, name)
		b, _ := json.MarshalIndent(rp, "", " ")
		os.WriteFile(path, b, 0o644)
		return path
	}
	min := sh.Shrink(orig)
	final := eng.Run(t, min.Plan, NewReplay(min.Tape), true)
	if cfg.race != nil {
		cfg.race.Check(final)
	}
	msg := v.Msg
	for _, x := range final.Violations {
		if x.Sig == v.Sig {
			msg = x.Msg
		}
	}
	pj, _ := json.Marshal(min.Plan)
	rp := Replay{Engine: eng.Name(), Property: v.Property, Sig: v.Sig, Msg: msg, Seed: cfg.Seed, Iter: iter, Profile: cfg.Profile,
		Plan: pj, Tape: final.Tape, OrigOps: eng.NOps(plan), OrigTape: res.Tape.NonZero(), ShrunkOps: eng.NOps(min.Plan), ShrunkTape: final.Tape.NonZero(),
		ShrinkTries: sh.Tries, Counters: final.Counters, Log: final.Log}
	if len(rp.Log) > 400 {
		rp.Log = rp.Log[len(rp.Log)-400:]
	}
	os.MkdirAll(cfg.ReplayDir, 0o755)
	name := fmt.Sprintf("%s-%016x-s%d-i%d.json", v.Property, hash64([]byte(v.Sig)), cfg.Seed, iter)
	path := filepath.Join(cfg.ReplayDir, name)
	b, _ := json.MarshalIndent(rp, "", " ")
	os.WriteFile(path, b, 0o644)
	return path
}

// RunReplay re-executes a replay file and reports whether the signature
// reproduces.
func RunReplay(t *testing.T, eng Engine, path string, log bool) (bool, *Result, *Replay, error) {
	b, err := os.ReadFile(path)
	if err != nil {
		return false, nil, nil, err
	}
	var rp Replay
	if err := json.Unmarshal(b, &rp); err != nil {
		return false, nil, nil, err
	}
	plan, err := eng.Decode(rp.Plan)
	if err != nil {
		return false, nil, &rp, err
	}
	res := eng.Run(t, plan, NewReplay(rp.Tape), log)
	if rw := NewRaceWatcher(); rw != nil {
		rw.Check(res)
	}
	for _, v := range res.Violations {
		if v.Sig == rp.Sig {
			return true, res, &rp, nil
		}
	}
	return false, res, &rp, nil
}

// rssMB: resident set size of this process in MiB (0 if unknown).
func rssMB() int {
	b, err := os.ReadFile("/proc/self/statm")
	if err != nil {
		return 0
	}
	f := strings.Fields(string(b))
	if len(f) < 2 {
		return 0
	}
	pages, _ := strconv.Atoi(f[1])
	return pages * os.Getpagesize() >> 20
}

// beat counts executed runs (search, shrink and replay alike).
var beat atomic.Uint64

// StartWatchdog watches (in real time, outside any bubble) that the iteration
// counter keeps moving; onHang is called with the stuck iteration.
func StartWatchdog(cur *atomic.Uint64, onHang func(iter uint64)) (stop func()) {
	limit, _ := time.ParseDuration(getenv("SIM_WATCHDOG", "30s"))
	done := make(chan struct{})
	go func() {
		last, since := uint64(0), time.Now()
		alive := kern.Beats.Load()
		t := time.NewTicker(time.Second)
		defer t.Stop()
		for {
			select {
			case <-done:
				return
			case <-t.C:
			}
			c := cur.Load()
			if a := kern.Beats.Load(); a != alive {
				// the current run keeps taking scheduling decisions (a long run, bounded
				// by the kernel's step limit): not a hang
				alive, since = a, time.Now()
			}
			if c != last {
				last, since = c, time.Now()
				continue
			}
			if c != 0 && time.Since(since) > limit {
				onHang(c - 1)
				return
			}
		}
	}()
	return func() { close(done) }
}
