package simkit

import (
	"fmt"
	"os"
	"path/filepath"
	"sort"
	"strings"
)

// RaceWatcher turns new reports in the race detector's log (GORACE log_path)
// into C10 violations attributed to the run that produced them.
type RaceWatcher struct {
	prefix string
	off    map[string]int64
	Hints  []string // substrings identifying frames of the code under test
	Ignore []string // frames of the harness: a report whose both stacks end there is harness trouble
}

func NewRaceWatcher() *RaceWatcher {
	p := os.Getenv("SIM_RACE_LOG")
	if p == "" {
		return nil
	}
	return &RaceWatcher{prefix: p, off: map[string]int64{}, Hints: []string{"grpc-gcp-go/grpcgcp"}}
}

// Delta returns the reports written since the last call.
func (w *RaceWatcher) Delta() []string {
	files, _ := filepath.Glob(w.prefix + ".*")
	var out []string
	for _, f := range files {
		b, err := os.ReadFile(f)
		if err != nil {
			continue
		}
		o := w.off[f]
		if int64(len(b)) <= o {
			continue
		}
		chunk := string(b[o:])
		// only complete reports
		end := strings.LastIndex(chunk, "==================\n")
		if end < 0 {
			continue
		}
		chunk = chunk[:end+len("==================\n")]
		w.off[f] = o + int64(len(chunk))
		for _, rep := range strings.Split(chunk, "WARNING: DATA RACE") {
			if strings.TrimSpace(strings.Trim(rep, "=\n")) == "" {
				continue
			}
			out = append(out, rep)
		}
	}
	return out
}

// Signature: unordered pair of (access kind, innermost function of the code
// under test) of the two conflicting accesses.
func (w *RaceWatcher) Signature(report string) (sig string, inLib bool) {
	var accs []string
	lines := strings.Split(report, "\n")
	for i := 0; i < len(lines); i++ {
		l := strings.TrimSpace(lines[i])
		kind := ""
		switch {
		case strings.HasPrefix(l, "Write at"), strings.HasPrefix(l, "Previous write at"):
			kind = "write"
		case strings.HasPrefix(l, "Read at"), strings.HasPrefix(l, "Previous read at"):
			kind = "read"
		}
		if kind == "" {
			continue
		}
		fn := "?"
		for j := i + 1; j < len(lines) && strings.TrimSpace(lines[j]) != ""; j++ {
			fl := strings.TrimSpace(lines[j])
			if strings.HasPrefix(fl, "/") || strings.HasPrefix(fl, "verif.local") && false {
				continue
			}
			for _, h := range w.Hints {
				if k := strings.Index(fl, h); k >= 0 && fn == "?" {
					x := fl[k+len(h):]
					if p := strings.LastIndex(x, "("); p > 0 {
						x = x[:p]
					}
					fn = strings.Trim(x, "./")
					inLib = true
				}
			}
			if fn != "?" {
				break
			}
		}
		accs = append(accs, kind+":"+fn)
	}
	sort.Strings(accs)
	return "C10|race|" + strings.Join(accs, "|"), inLib
}

// Check appends a C10 violation per new report to the result.
func (w *RaceWatcher) Check(res *Result) {
	for _, rep := range w.Delta() {
		sig, inLib := w.Signature(rep)
		if !inLib {
			// neither stack touches the code under test: harness/std only, cannot
			// be a violation of the property; counted, never reported
			res.Count("race_report_outside_library", 1)
			if os.Getenv("SIM_RACE_DEBUG") != "" {
				fmt.Println("RACE-OUTSIDE", firstLines(rep, 40))
			}
			continue
		}
		res.Violations = append(res.Violations, Violation{Property: "C10", Rule: "race", Sig: sig, Msg: fmt.Sprintf("data race: %s\n%s", sig, firstLines(rep, 40))})
	}
}

func firstLines(s string, n int) string {
	ls := strings.Split(s, "\n")
	if len(ls) > n {
		ls = ls[:n]
	}
	return strings.Join(ls, "\n")
}
