package smoke

import (
	"testing"

	_ "github.com/GoogleCloudPlatform/grpc-gcp-go/grpcgcp"
	"google.golang.org/grpc/balancer"
)

func TestGet(t *testing.T) {
	if balancer.Get("grpc_gcp") == nil {
		t.Fatal("not registered")
	}
}
