module verif.local/sim

go 1.26

require (
	github.com/anishathalye/porcupine v1.3.0
	github.com/GoogleCloudPlatform/grpc-gcp-go/grpcgcp v0.0.0
	google.golang.org/grpc v1.56.3
	google.golang.org/protobuf v1.30.0
	verif.local/vsync v0.0.0
)

require (
	github.com/golang/protobuf v1.5.3 // indirect
	golang.org/x/net v0.9.0 // indirect
	golang.org/x/sys v0.7.0 // indirect
	golang.org/x/text v0.9.0 // indirect
	google.golang.org/genproto v0.0.0-20230410155749-daa745c078e1 // indirect
)

replace github.com/GoogleCloudPlatform/grpc-gcp-go/grpcgcp => /tmp/scratch1/grpcgcp

replace verif.local/vsync => /verif/vsync
