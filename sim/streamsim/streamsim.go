// Package streamsim simulates the stream returned by
// GCPStreamClientInterceptor (sender / receiver / prober / canceller tasks
// around its sync.Cond protocol, stream creation that fails, blocks or
// succeeds) and the transparency of GCPUnaryClientInterceptor.
//
// Real code: gcp_interceptor.go. Stub: grpc.Streamer, grpc.ClientStream,
// grpc.UnaryInvoker.
package streamsim

import (
	"context"
	"encoding/json"
	"errors"
	"fmt"
	"io"
	"math/rand/v2"
	"strings"
	"testing"
	"time"

	"google.golang.org/grpc"
	"google.golang.org/grpc/codes"
	"google.golang.org/grpc/metadata"
	"google.golang.org/grpc/status"

	"github.com/GoogleCloudPlatform/grpc-gcp-go/grpcgcp"

	"verif.local/sim/simkit"
	"verif.local/vsync/kern"
)

const (
	OpSend = iota
	OpRecv
	OpProbe // Header / Trailer / CloseSend / Context
	OpCancel
	OpAdvance
	OpUnblock // let a blocked stream creation proceed
	OpUnary
	OpSteps
	nOps
)

type Op struct {
	K    int `json:"k"`
	Task int `json:"task,omitempty"` // which sender/receiver task
	A    int `json:"a,omitempty"`
	N    int `json:"n,omitempty"`
	ID   int `json:"id,omitempty"`
}

type Plan struct {
	Profile  string `json:"profile"`
	Fails    int    `json:"fails"`               // first stream creations that fail
	ErrKinds int    `json:"err_kinds,omitempty"` // > 0: every failure has another concrete error type
	// the n-th send / receive that reaches the underlying stream fails there (0: none)
	SendErrAt  int  `json:"send_err_at,omitempty"`
	SendErrEOF bool `json:"send_err_eof,omitempty"`
	RecvErrAt  int  `json:"recv_err_at,omitempty"`
	BlockFirst bool `json:"block_first"` // creation blocks until OpUnblock
	Deadline   int  `json:"deadline_ms"` // 0 none
	Concurrent bool `json:"concurrent"`
	Strategy   int  `json:"strategy"`
	EarlyProbe bool `json:"early_probe"` // probes before the stream exists are allowed
	// Desc: kind of streaming method (bit 0 set: not client-streaming, bit 1 set: not server-streaming)
	Desc int `json:"desc,omitempty"`
	// HeaderWaits: Header() of the underlying stream blocks until the next message
	// sent has reached that stream (or the call's context ends)
	HeaderWaits bool `json:"header_waits,omitempty"`
	// Chain: the stream's context derives from the context an earlier intercepted
	// unary call handed to its invoker (an application tying calls together)
	Chain bool `json:"chain,omitempty"`
	Ops   []Op `json:"ops"`
}

//go:norace
func (p *Plan) Clone() *Plan {
	c := *p
	c.Ops = append([]Op(nil), p.Ops...)
	return &c
}

//go:norace
func Generate(r *rand.Rand, profile string, concurrent bool, avoid map[string]bool) *Plan {
	p := &Plan{Profile: profile, Concurrent: concurrent}
	switch r.IntN(4) {
	case 0:
		p.Fails = 1 + r.IntN(2)
		if r.IntN(4) == 0 {
			p.Fails = 3 + r.IntN(3)
		}
		if r.IntN(2) == 0 {
			p.ErrKinds = 1 + r.IntN(6)
		}
	}
	if r.IntN(4) == 0 {
		p.SendErrAt = 1 + r.IntN(3)
		if r.IntN(2) == 0 {
			p.SendErrAt = 1 // the message that created the stream
		}
		p.SendErrEOF = r.IntN(3) == 0
	}
	if r.IntN(6) == 0 {
		p.RecvErrAt = 1 + r.IntN(3)
	}
	p.BlockFirst = r.IntN(3) == 0
	p.Chain = r.IntN(4) == 0
	if r.IntN(3) == 0 {
		p.Deadline = []int{5, 20, 100}[r.IntN(3)]
	}
	if concurrent {
		p.Strategy = r.IntN(6) // 0 random walk, 1-3 PCT depth, 4-5 one long stall
	}
	p.HeaderWaits = r.IntN(3) == 0
	if r.IntN(2) == 0 {
		p.Desc = r.IntN(4)
	}
	p.EarlyProbe = !avoid["early_probe"] || r.IntN(4) == 0
	if avoid["no_early_probe"] {
		p.EarlyProbe = false
	}
	n := 4 + r.IntN(20)
	for i := 0; i < n; i++ {
		o := Op{}
		switch x := r.IntN(100); {
		case x < 30:
			o.K = OpSend
			o.Task = r.IntN(2)
		case x < 55:
			o.K = OpRecv
			o.Task = r.IntN(2)
		case x < 68:
			o.K = OpProbe
			o.A = r.IntN(4)
			o.Task = r.IntN(4)
		case x < 74:
			o.K = OpCancel
			if avoid["recv_ctx_end"] && r.IntN(4) > 0 {
				o.K = OpSend
			}
		case x < 82:
			o.K = OpAdvance
			o.A = []int{1, 5, 20, 100}[r.IntN(4)]
			if avoid["recv_ctx_end"] && r.IntN(4) > 0 {
				o.A = 1
			}
		case x < 90:
			o.K = OpUnblock
		case x < 96:
			o.K = OpUnary
			o.A = r.IntN(8) + 8*r.IntN(3) // + how many call options (0, 1, 3)
		default:
			o.K = OpSteps
			o.A = 1 + r.IntN(10)
		}
		if concurrent {
			o.N = r.IntN(8)
		}
		o.ID = i + 1
		p.Ops = append(p.Ops, o)
	}
	return p
}

// ---------------------------------------------------------------- fakes

type rec struct {
	kind string // send | recv
	task int
	msg  interface{}
	seq  int
	err  error // what the underlying stream answered
}

// Errors of the underlying stream (built at package initialisation, see
// creationErrTable): a send that fails for good, and the end of the stream.
var (
	errUnderSend = status.Error(codes.ResourceExhausted, "underlying stream: message larger than max")
	errUnderRecv = status.Error(codes.Unavailable, "underlying stream: transport is closing")
)

type fakeCS struct {
	s   *sim
	ctx context.Context
}

//go:norace
func (f *fakeCS) SendMsg(m interface{}) error {
	f.s.k.Yield("fake:SendMsg")
	var err error
	f.s.nUnderSend++
	if k := f.s.plan.SendErrAt; k > 0 && f.s.nUnderSend == k {
		err = errUnderSend
		if f.s.plan.SendErrEOF {
			err = io.EOF
		}
		f.s.nUnderErr++
	}
	f.s.reached = kern.Push(f.s.reached, rec{kind: "send", task: curTask(f.s), msg: m, seq: len(f.s.reached), err: err})
	if f.s.hdrWaiting > 0 {
		f.s.k.Set(&f.s.hdrW)
	}
	return err
}

//go:norace
func (f *fakeCS) RecvMsg(m interface{}) error {
	f.s.k.Yield("fake:RecvMsg")
	var err error
	f.s.nUnderRecv++
	if k := f.s.plan.RecvErrAt; k > 0 && f.s.nUnderRecv == k {
		err = errUnderRecv
		f.s.nUnderErr++
	}
	f.s.reached = kern.Push(f.s.reached, rec{kind: "recv", task: curTask(f.s), msg: m, seq: len(f.s.reached), err: err})
	return err
}

//go:norace
func (f *fakeCS) Header() (metadata.MD, error) {
	f.s.probed++
	if f.s.plan.HeaderWaits && !f.s.hdrW.IsSet() && !f.s.ctxEnded {
		// the server sends its headers only after the next message of the client
		// has reached it (or the call ends): Header() blocks meanwhile, as grpc-go's
		// does - and nothing else on the stream may wait for it
		f.s.hdrWaiting++
		f.s.k.Wait(&f.s.hdrW)
	}
	return metadata.MD{"h": {"1"}}, nil
}

//go:norace
func (f *fakeCS) Trailer() metadata.MD { f.s.probed++; return metadata.MD{"t": {"1"}} }

//go:norace
func (f *fakeCS) CloseSend() error { f.s.probed++; return nil }

//go:norace
func (f *fakeCS) Context() context.Context { f.s.probed++; return f.ctx }

type taskTag struct{ id int }

//go:norace
func curTask(s *sim) int {
	if t := s.k.Me(); t != nil {
		if tg, ok := t.Tag.(*taskTag); ok {
			return tg.id
		}
	}
	return -1
}

type sim struct {
	plan *Plan
	k    *kern.Kernel
	res  *simkit.Result

	cs              grpc.ClientStream
	ctx             context.Context
	cancel          context.CancelFunc
	ctxEnded        bool
	created         int // successful creations
	attempts        int
	firstMsg        interface{}
	createErr       []error
	lastCtx         context.Context // context an interceptor handed to its invoker/streamer last
	sending         []sendRec
	unblock         kern.Waiter
	hdrW            kern.Waiter // set when the "server" has sent its headers (plan.HeaderWaits)
	hdrWaiting      int
	blocked         bool
	reached         []rec
	probed          int
	issued          []rec // sends/recvs issued by the harness after creation was known
	pending         map[int]*pendingOp
	nextOp          int
	opIdx           int
	stop            bool
	sendSeq         int
	keyCtx          struct{}
	nBlocks, nFails int
	nErrKinds       int
	nUnderSend      int
	nUnderRecv      int
	nUnderErr       int
	hintOp          int
	hintN           uint64
}

type pendingOp struct {
	id                 int
	kind               string
	task               int
	msg                interface{}
	err                error
	returned           bool
	t                  *kern.Task
	panicked           bool
	issuedBeforeCreate bool
}

//go:norace
func (s *sim) vio(prop, rule, facts, msg string) {
	sig := prop + "|" + rule
	if facts != "" {
		sig += "|" + facts
	}
	s.res.Violations = append(s.res.Violations, simkit.Violation{Property: prop, Rule: rule, Sig: sig, Msg: msg, Op: s.opIdx})
	s.k.Logf("VIOLATION %s %s", sig, msg)
	s.stop = true
}

type ctxKey string

var errCreation = errors.New("stream creation failed")

// Errors a stream creation may fail with: gRPC and interceptors below this one
// return errors of many concrete types, also within one call (a status error,
// then a context error, ...), comparable or not.
type creationErrs []error

//go:norace
func (e creationErrs) Error() string { return "stream creation failed (several causes)" }

type creationErrVal struct{ code int }

//go:norace
func (e creationErrVal) Error() string { return "stream creation failed (value)" }

type creationErrPtr struct{ code int }

//go:norace
func (e *creationErrPtr) Error() string { return "stream creation failed (pointer)" }

// All values are built at package initialisation: the scheduler reads the
// errors operations returned, and an error allocated on a task would be a
// harness-made race (no happens-before edge from a task to the scheduler).
var creationErrTable = func() (t [6][]error) {
	for n := 0; n < 8; n++ {
		t[0] = append(t[0], errCreation)
		t[1] = append(t[1], status.Error(codes.Unavailable, "stream creation failed (status)"))
		t[2] = append(t[2], fmt.Errorf("stream creation failed: %w", context.DeadlineExceeded))
		t[3] = append(t[3], creationErrs{errCreation, context.Canceled})
		t[4] = append(t[4], creationErrVal{n})
		t[5] = append(t[5], &creationErrPtr{n})
	}
	return
}()

//go:norace
func creationErr(n, kinds int) error {
	if kinds == 0 {
		return errCreation
	}
	return creationErrTable[(n+kinds)%6][n%8]
}

// cancelCtx cancels the call's context from a task of its own (the scheduler
// goroutine is deaf to synchronisation events and must not touch the context).
//
//go:norace
func (s *sim) cancelCtx() {
	if s.k.Aborting() {
		s.cancel()
		return
	}
	s.hint()
	s.k.Spawn("cancel", 0, &taskTag{id: 9}, func() { s.cancel() })
}

//go:norace
func (s *sim) streamer(ctx context.Context, desc *grpc.StreamDesc, cc *grpc.ClientConn, method string, opts ...grpc.CallOption) (grpc.ClientStream, error) {
	s.k.Yield("fake:streamer")
	s.attempts++
	n := s.attempts
	if n, ok := grpcgcp.FromMEContext(ctx); ctx.Value(ctxKey("caller")) != "value" || !ok || n != "me-of-the-caller" {
		s.k.Logf("streamer: caller context value lost")
		s.createErr = kern.Push(s.createErr, errors.New("ctx-lost"))
	}
	s.lastCtx = ctx
	if grpcgcp.VerifPeekSupported {
		// the creating SendMsg runs the streamer on its own goroutine: the message
		// that task is sending is the one the picker must see
		var want interface{}
		me := s.k.Me()
		for _, sm := range s.sending {
			if sm.t == me {
				want = sm.m
			}
		}
		rq, _, ok := grpcgcp.VerifPeekGCPContext(ctx)
		if !ok || !sameMsg(rq, want) {
			s.createErr = kern.Push(s.createErr, errors.New("first-message"))
		}
	}
	if s.plan.BlockFirst && n == 1 {
		s.blocked = true
		s.nBlocks++
		s.k.Wait(&s.unblock)
		s.blocked = false
	}
	if n <= s.plan.Fails {
		s.nFails++
		if s.plan.ErrKinds > 0 {
			s.nErrKinds++
		}
		return nil, creationErr(n, s.plan.ErrKinds)
	}
	s.created++
	return &fakeCS{s: s, ctx: ctx}, nil
}

//go:norace
func Run(t *testing.T, plan *Plan, src *simkit.Source, logOn bool) *simkit.Result {
	res := &simkit.Result{}
	h := simkit.Bubble(t, func() {
		s := &sim{plan: plan, res: res, pending: map[int]*pendingOp{}}
		s.run(src, logOn)
	})
	if h != "" && res.Harness == "" {
		res.Harness = h
	}
	res.Tape = src.Recorded()
	return res
}

// op spawns one stream method call as a task (panics recorded).
//
//go:norace
func (s *sim) op(kind string, task int, msg interface{}, fn func() error) *pendingOp {
	po := &pendingOp{id: s.nextOp, kind: kind, task: task, msg: msg, issuedBeforeCreate: s.created == 0}
	s.nextOp++
	s.pending[po.id] = po
	s.hint()
	po.t = s.k.Spawn(fmt.Sprintf("%s#%d", kind, po.id), 10+task, &taskTag{id: task}, func() {
		defer func() {
			if r := recover(); r != nil {
				if kern.IsAbort(r) {
					panic(r)
				}
				po.panicked = true
				po.err = fmt.Errorf("panic: %v", r)
				s.k.Logf("panic in %s: %v", kind, r)
			}
			po.returned = true
		}()
		po.err = fn()
	})
	return po
}

//go:norace
func (s *sim) settle(o Op) {
	if s.plan.Concurrent {
		s.k.RunSteps(o.N)
	} else {
		s.k.Quiesce()
	}
	s.check()
	if !s.plan.Concurrent {
		s.quiescent(false)
	}
}

//go:norace
func (s *sim) run(src *simkit.Source, logOn bool) {
	k := kern.New(src)
	k.LogOn = logOn
	k.OpYields = 2000
	k.MaxSteps = 50000
	s.k = k
	k.Install()
	defer k.Uninstall()
	src.Segment(0)
	s.opIdx = -1
	s.unblock.Note = "stream creation blocked"
	s.hdrW.Note = "Header() of the underlying stream waits for the server's headers"
	base := grpcgcp.NewMEContext(context.WithValue(context.Background(), ctxKey("caller"), "value"), "me-of-the-caller")
	if s.plan.Chain {
		// an earlier intercepted unary call; the stream's context derives from the
		// context that call's invoker saw
		s.unary(0)
		if s.stop {
			s.finish()
			return
		}
		if s.lastCtx != nil {
			base = grpcgcp.NewMEContext(context.WithValue(context.WithoutCancel(s.lastCtx), ctxKey("caller"), "value"), "me-of-the-caller")
			s.res.Count("fault:ctx_derived_from_earlier_call", 1)
		}
	}
	if s.plan.Deadline > 0 {
		d := time.Duration(s.plan.Deadline) * time.Millisecond
		s.ctx, s.cancel = context.WithTimeout(base, d)
		k.AddStop(time.Now().Add(d))
	} else {
		s.ctx, s.cancel = context.WithCancel(base)
	}
	var err error
	// every kind of streaming method: bidi, client-streaming, server-streaming, and
	// the zero descriptor (the statements make no difference between them)
	desc := &grpc.StreamDesc{StreamName: "Stream", ClientStreams: s.plan.Desc&1 == 0, ServerStreams: s.plan.Desc&2 == 0}
	s.res.Count(fmt.Sprintf("fault:stream_descriptor_client=%v_server=%v", desc.ClientStreams, desc.ServerStreams), 1)
	s.cs, err = grpcgcp.GCPStreamClientInterceptor(s.ctx, desc, nil, "/svc/Stream", s.streamer)
	if err != nil || s.cs == nil {
		s.vio("C12", "interceptor-failed", "", fmt.Sprintf("GCPStreamClientInterceptor returned %v, %v", s.cs, err))
		s.finish()
		return
	}
	for i, o := range s.plan.Ops {
		if s.stop || k.Aborting() {
			break
		}
		s.opIdx = i
		src.Segment(i + 1)
		s.exec(o)
	}
	if !s.stop && !k.Aborting() {
		s.opIdx = len(s.plan.Ops)
		src.Segment(len(s.plan.Ops) + 1)
		s.heal()
	}
	s.finish()
}

type msg struct{ N int }

// vmsg is passed BY VALUE and is not comparable (it holds a slice), like a
// []byte frame with a raw codec: the wrapper may not compare messages.
type vmsg struct {
	N   int
	Pad []int
}

// msgN returns the sequence number a message carries, whatever its shape.
//
//go:norace
func msgN(m interface{}) (int, bool) {
	switch x := m.(type) {
	case *msg:
		if x == nil {
			return 0, false
		}
		return x.N, true
	case []byte:
		if len(x) < 2 {
			return 0, false
		}
		return int(x[0]) | int(x[1])<<8, true
	case vmsg:
		return x.N, true
	}
	return 0, false
}

// sameMsg: identity of two messages without ever comparing interface values of
// non-comparable dynamic types.
//
//go:norace
func sameMsg(a, b interface{}) bool {
	switch x := a.(type) {
	case *msg:
		y, ok := b.(*msg)
		return ok && x == y
	case []byte:
		y, ok := b.([]byte)
		return ok && len(x) > 0 && len(x) == len(y) && &x[0] == &y[0]
	case vmsg:
		y, ok := b.(vmsg)
		return ok && x.N == y.N
	case nil:
		return b == nil
	}
	return false
}

type sendRec struct {
	t *kern.Task
	m interface{}
}

//go:norace
func (s *sim) noteSending(m interface{}) {
	s.sending = kern.Push(s.sending, sendRec{t: s.k.Me(), m: m})
}

//go:norace
func (s *sim) exec(o Op) {
	switch o.K {
	case OpSend:
		s.sendSeq++
		var m interface{} = &msg{N: s.sendSeq}
		switch s.sendSeq % 5 {
		case 3:
			m = []byte{byte(s.sendSeq), byte(s.sendSeq >> 8), 0}
			s.res.Count("fault:non_comparable_message", 1)
		case 4:
			m = vmsg{N: s.sendSeq, Pad: []int{1}}
			s.res.Count("fault:non_comparable_message", 1)
		}
		s.res.Count("op:send", 1)
		s.op("send", o.Task%2, m, func() error {
			s.noteSending(m)
			return s.cs.SendMsg(m)
		})
		s.settle(o)
	case OpRecv:
		m := &msg{N: -s.nextOp}
		s.res.Count("op:recv", 1)
		if s.created == 0 {
			s.res.Count("probe:recv_before_creation", 1)
		}
		s.op("recv", 2+o.Task%2, m, func() error { return s.cs.RecvMsg(m) })
		s.settle(o)
	case OpProbe:
		// Which application goroutine probes: one of the sender/receiver goroutines.
		// Unless early probes are allowed, only a goroutine that has already
		// completed a send or receive on the stream (grpc: "should not be called
		// until after Header or RecvMsg has returned"): that earlier call ordered it
		// after stream creation. A probe from a goroutine with no ordering to the
		// creation is application misuse, not the library's race.
		pg := o.Task % 4
		ordered := false
		for _, po := range s.pending {
			if po.task == pg && po.returned && po.err == nil && (po.kind == "send" || po.kind == "recv") {
				ordered = true
			}
		}
		if (s.created == 0 || !ordered) && !s.plan.EarlyProbe {
			return
		}
		if s.created == 0 {
			s.res.Count("fault:method_before_first_send", 1)
		}
		s.res.Count("op:probe", 1)
		name := []string{"Header", "Trailer", "CloseSend", "Context"}[o.A%4]
		s.op(name, pg, nil, func() error {
			switch o.A % 4 {
			case 0:
				_, err := s.cs.Header()
				return err
			case 1:
				_ = s.cs.Trailer()
			case 2:
				return s.cs.CloseSend()
			default:
				_ = s.cs.Context()
			}
			return nil
		})
		s.settle(o)
	case OpCancel:
		if !s.ctxEnded {
			s.cancelCtx()
			s.ctxEnded = true
			s.k.Set(&s.hdrW)
			s.k.Bump()
			s.res.Count("fault:ctx_cancel", 1)
		}
		s.settle(o)
	case OpAdvance:
		s.k.Advance(time.Duration(o.A) * time.Millisecond)
		if s.plan.Deadline > 0 && s.k.Elapsed() >= time.Duration(s.plan.Deadline)*time.Millisecond && !s.ctxEnded {
			s.ctxEnded = true
			s.k.Set(&s.hdrW)
			s.k.Quiesce()
			s.res.Count("fault:ctx_deadline", 1)
		}
		s.check()
	case OpUnblock:
		if s.blocked {
			s.k.Set(&s.unblock)
		}
		s.settle(o)
	case OpUnary:
		s.unary(o.A)
	case OpSteps:
		s.k.RunSteps(o.A)
		s.check()
	}
}

// unary checks the transparency of GCPUnaryClientInterceptor.
//
//go:norace
func (s *sim) unary(variant int) {
	type key struct{}
	parent := context.Background()
	if variant >= 4 && s.lastCtx != nil {
		parent = context.WithoutCancel(s.lastCtx) // derived from the stream's (or an earlier call's) context
		s.res.Count("fault:ctx_derived_from_earlier_call", 1)
	}
	ctx := context.WithValue(parent, key{}, 42)
	// values other parts of this library put into a context are the caller's too:
	// the MultiEndpoint name of a call that goes through a GCPMultiEndpoint
	ctx = grpcgcp.NewMEContext(ctx, "me-of-the-caller")
	meLost := false
	req, reply := &msg{N: 1}, &msg{N: 2}
	peek := ""
	wantErr := error(nil)
	if variant%2 == 1 {
		wantErr = errors.New("invoker error")
	}
	// the call options are the head of an array the application owns (spare
	// capacity behind them: an interceptor that appends writes into it)
	nOpts := []int{1, 0, 3}[(variant/8)%3]
	variant %= 8
	var hdr metadata.MD
	own := make([]grpc.CallOption, 3, 8)
	own[0], own[1], own[2] = grpc.WaitForReady(variant >= 2), grpc.Header(&hdr), grpc.MaxCallRecvMsgSize(1<<20)
	for i := 3; i < cap(own); i++ {
		own = append(own, grpc.MaxCallSendMsgSize(100+i))
	}
	ownWant := append([]grpc.CallOption(nil), own...)
	passed := own[:nOpts]
	var got struct {
		method     string
		req, reply interface{}
		opts       []grpc.CallOption
		val        interface{}
		cc         *grpc.ClientConn
		called     int
	}
	var err error
	po := s.op("unary", 5, nil, func() error {
		err = grpcgcp.GCPUnaryClientInterceptor(ctx, "/svc/Unary", req, reply, nil,
			func(c context.Context, method string, rq, rp interface{}, cc *grpc.ClientConn, opts ...grpc.CallOption) error {
				got.called++
				got.method, got.req, got.reply, got.opts, got.cc = method, rq, rp, opts, cc
				got.val = c.Value(key{})
				if n, ok := grpcgcp.FromMEContext(c); !ok || n != "me-of-the-caller" {
					meLost = true
				}
				s.lastCtx = c
				if grpcgcp.VerifPeekSupported {
					rq, rp, ok := grpcgcp.VerifPeekGCPContext(c)
					switch {
					case !ok:
						peek = "no picker context"
					case rq != interface{}(req) || rp != interface{}(reply):
						peek = "the picker context carries other request/reply objects"
					}
				}
				return wantErr
			}, passed...)
		return err
	})
	s.k.Quiesce()
	s.res.Count("op:unary", 1)
	if po.panicked {
		s.vio("C12", "unary-panic", "", po.err.Error())
		return
	}
	if !po.returned {
		s.vio("C12", "unary-blocked", "", "GCPUnaryClientInterceptor did not return")
		return
	}
	switch {
	case peek != "":
		s.vio("C12", "unary-picker-context-wrong", map[bool]string{true: "chained-ctx", false: ""}[variant >= 4], "GCPUnaryClientInterceptor: "+peek+" (the picker must find this call's request and reply objects)")
	case got.called != 1:
		s.vio("C12", "unary-invoker-calls", "", fmt.Sprintf("invoker called %d times", got.called))
	case got.method != "/svc/Unary" || got.req != interface{}(req) || got.reply != interface{}(reply) || got.cc != nil:
		s.vio("C12", "unary-not-transparent", "args", fmt.Sprintf("invoker saw method=%q req=%p reply=%p", got.method, got.req, got.reply))
	case !sameOpts(got.opts, ownWant[:nOpts]):
		s.vio("C12", "unary-not-transparent", "opts", fmt.Sprintf("invoker saw %d options %v, the caller passed %d: %v", len(got.opts), got.opts, nOpts, ownWant[:nOpts]))
	case got.val != 42:
		s.vio("C12", "unary-not-transparent", "ctx", "caller's context value not visible to the invoker")
	case meLost:
		s.vio("C12", "unary-not-transparent", "ctx-me-name", "the MultiEndpoint name the caller put into the context (NewMEContext) is not visible to the invoker any more")
	case err != wantErr:
		s.vio("C12", "unary-not-transparent", "err", fmt.Sprintf("returned %v, invoker returned %v", err, wantErr))
	}
}

//go:norace
func sameOpts(a, b []grpc.CallOption) bool {
	if len(a) != len(b) {
		return false
	}
	for i := range a {
		if a[i] != b[i] {
			return false
		}
	}
	return true
}

// check evaluates the history oracles.
//
//go:norace
func (s *sim) check() {
	if s.stop {
		return
	}
	if f := s.k.Fail; f != nil {
		s.k.Fail = nil
		fn := simkit.FuncOfStack(f.Stack)
		switch f.Kind {
		case "relock", "lockleak", "spin":
			s.vio("C12", "lock-"+f.Kind, fn, f.Task+": "+f.Msg)
		case "panic":
			s.vio("C12", "panic", fn, f.Msg)
		default:
			s.res.Harness = f.Kind + ": " + f.Msg
			s.stop = true
		}
		return
	}
	if s.created > 1 {
		s.vio("C12", "second-stream-created", "", fmt.Sprintf("the underlying stream was created %d times", s.created))
		return
	}
	for _, e := range s.createErr {
		if e.Error() == "ctx-lost" {
			s.vio("C12", "stream-ctx-values-lost", "", "streamer did not see the caller's context values")
			return
		}
		if e.Error() == "first-message" {
			s.vio("C12", "first-message-not-visible-to-picker", map[bool]string{true: "chained-ctx", false: ""}[s.plan.Chain], "the context handed to the streamer does not carry the message of the SendMsg that creates the stream (what the picker reads its affinity key from)")
			return
		}
	}
	ids := make([]int, 0, len(s.pending))
	for id := range s.pending {
		ids = append(ids, id)
	}
	sortInts(ids)
	for _, id := range ids {
		po := s.pending[id]
		if po.panicked {
			when := "after"
			if po.issuedBeforeCreate {
				when = "before"
			}
			s.vio("C12", "method-panics", po.kind+"|"+when+"-creation", fmt.Sprintf("%s issued %s stream creation: %v", po.kind, when, po.err))
			return
		}
	}
}

// quiescent checks: at quiescence of a serial run.
//
//go:norace
func (s *sim) quiescent(final bool) {
	if s.stop {
		return
	}
	for _, t := range s.k.Blocked(kern.BlockedLock) {
		if s.blocked {
			break // the plan is blocking stream creation, which legitimately holds the stream's lock
		}
		s.vio("C12", "deadlock", "", t.Name+" blocked on a lock at quiescence: "+kern.OwnerInfo(t.WaitLock()))
		return
	}
	ids := make([]int, 0, len(s.pending))
	for id := range s.pending {
		ids = append(ids, id)
	}
	sortInts(ids)
	for _, id := range ids {
		po := s.pending[id]
		if po.returned {
			continue
		}
		st := po.t.State()
		if po.kind == "recv" && (st == kern.BlockedCond || st == kern.BlockedSelect || st == kern.BlockedReal || st == kern.BlockedSleep) {
			switch {
			case s.created > 0:
				s.vio("C12", "recv-lost-wakeup", "", "RecvMsg still waits although the underlying stream exists")
				return
			case s.attempts > 0 && !s.blocked && s.attempts <= s.plan.Fails:
				s.vio("C12", "recv-not-released-by-error", "", "RecvMsg still waits although stream creation failed")
				return
			case s.ctxEnded:
				s.vio("C12", "recv-ignores-ctx-end", "", "RecvMsg still waits although the call's context has ended")
				return
			}
			continue
		}
		_ = final
	}
}

// order: after creation every task's sends/receives reach the underlying
// stream unchanged and in that task's order.
//
//go:norace
func (s *sim) order() {
	if s.stop {
		return
	}
	last := map[int]int{}
	for _, r := range s.reached {
		n, ok := msgN(r.msg)
		if !ok {
			s.vio("C12", "message-changed", "", fmt.Sprintf("underlying stream saw %T", r.msg))
			return
		}
		if r.kind == "send" {
			if prev, ok := last[r.task]; ok && n < prev {
				s.vio("C12", "send-order", "", fmt.Sprintf("task %d: message %d reached the stream after %d", r.task, n, prev))
				return
			}
			last[r.task] = n
		}
	}
	// every returned successful op reached the stream exactly once
	ids := make([]int, 0, len(s.pending))
	for id := range s.pending {
		ids = append(ids, id)
	}
	sortInts(ids)
	for _, id := range ids {
		po := s.pending[id]
		if !po.returned || po.panicked || (po.kind != "send" && po.kind != "recv") {
			continue
		}
		n := 0
		var under error
		for _, r := range s.reached {
			if sameMsg(r.msg, po.msg) {
				n++
				under = r.err
			}
		}
		if n == 1 && under != nil {
			// the underlying stream failed this operation: delegating means reporting it
			if po.err == nil {
				s.vio("C12", "op-error-swallowed", po.kind, fmt.Sprintf("%s returned nil although the underlying stream answered %v", po.kind, under))
				return
			}
			continue
		}
		if po.err == nil && n != 1 {
			s.vio("C12", "op-not-delegated", po.kind, fmt.Sprintf("%s returned nil but reached the underlying stream %d times", po.kind, n))
			return
		}
		if po.err != nil && n != 0 {
			s.vio("C12", "op-delegated-and-failed", po.kind, fmt.Sprintf("%s returned %v but reached the underlying stream", po.kind, po.err))
			return
		}
		if po.err != nil && po.kind == "recv" && !s.ctxEnded && !strings.Contains(po.err.Error(), "creation") {
			s.vio("C12", "recv-unknown-error", "", fmt.Sprintf("RecvMsg returned %v, which is not a creation error", po.err))
			return
		}
	}
}

//go:norace
func (s *sim) heal() {
	// let a blocked creation proceed, run everything, then judge
	if s.blocked {
		s.k.Set(&s.unblock)
	}
	s.k.Quiesce()
	s.check()
	s.quiescent(true)
	s.order()
	if s.stop {
		return
	}
	// bounded liveness: after cancellation no receiver may remain blocked
	if !s.ctxEnded {
		s.cancelCtx()
		s.ctxEnded = true
		s.k.Set(&s.hdrW)
		s.k.Bump()
		s.k.Quiesce()
		s.check()
		s.quiescent(true)
	}
	s.res.Count("probe:heal_reached", 1)
}

//go:norace
func (s *sim) finish() {
	k := s.k
	if s.blocked {
		k.Set(&s.unblock)
	}
	k.Set(&s.hdrW)
	if s.hdrWaiting > 0 {
		s.res.Count("fault:header_call_waiting_for_the_next_message", s.hdrWaiting)
	}
	k.Shutdown()
	if s.cancel != nil {
		s.cancel()
	}
	s.res.Steps = int(k.Steps())
	s.res.SimNanos = int64(k.Elapsed())
	s.res.Fingerprint = k.Fingerprint
	s.res.Switches, s.res.SwitchInOp = k.Switches, k.SwitchInOp
	s.res.Log = k.Log
	s.res.Count("ops", len(s.plan.Ops))
	s.res.Count("fault:stream_creation_blocks", s.nBlocks)
	s.res.Count("fault:stream_creation_fails", s.nFails)
	s.res.Count("fault:stream_creation_error_types_vary", s.nErrKinds)
	s.res.Count("fault:underlying_stream_operation_fails", s.nUnderErr)
	s.res.States = append(s.res.States, uint64(s.created)<<8|uint64(s.attempts)<<4|uint64(len(s.reached)))
}

// hint gives the next spawned task a schedule-independent key derived from the
// current operation's stable id, so that recorded scheduling decisions survive
// the removal of other operations during shrinking.
//
//go:norace
//go:norace
func (s *sim) hint() {
	id := uint64(1000000 + s.opIdx + 1)
	if s.opIdx >= 0 && s.opIdx < len(s.plan.Ops) && s.plan.Ops[s.opIdx].ID != 0 {
		id = uint64(s.plan.Ops[s.opIdx].ID)
	}
	if s.hintOp != s.opIdx {
		s.hintOp, s.hintN = s.opIdx, 0
	}
	s.hintN++
	s.k.KeyHint = kern.MixKey(id, s.hintN)
}

//go:norace
func sortInts(a []int) {
	for i := 1; i < len(a); i++ {
		for j := i; j > 0 && a[j] < a[j-1]; j-- {
			a[j], a[j-1] = a[j-1], a[j]
		}
	}
}

// ---------------------------------------------------------------- engine

type Engine struct{}

//go:norace
func (Engine) Name() string { return "streamsim" }

//go:norace
func (Engine) Generate(r *rand.Rand, profile string, concurrent bool, avoid map[string]bool) simkit.Plan {
	return Generate(r, profile, concurrent, avoid)
}

//go:norace
func (Engine) Decode(b []byte) (simkit.Plan, error) {
	p := &Plan{}
	return p, json.Unmarshal(b, p)
}

//go:norace
func (Engine) Strategy(p simkit.Plan, r *rand.Rand) simkit.Strategy {
	pl := p.(*Plan)
	if !pl.Concurrent || pl.Strategy == 0 {
		return &simkit.RandomWalk{R: simkit.NewSM64(r.Uint64()), Stick: 0.6, Mix: 0.5}
	}
	if pl.Strategy >= 4 {
		return simkit.NewStall(simkit.NewSM64(r.Uint64()), 4+len(pl.Ops), 28, 0.7, 0.5)
	}
	return simkit.NewPCT(simkit.NewSM64(r.Uint64()), pl.Strategy, 30+len(pl.Ops)*8, 0.5)
}

//go:norace
func (Engine) Run(t *testing.T, p simkit.Plan, src *simkit.Source, log bool) *simkit.Result {
	return Run(t, p.(*Plan), src, log)
}

//go:norace
func (Engine) NOps(p simkit.Plan) int { return len(p.(*Plan).Ops) }

//go:norace
func (Engine) Remove(p simkit.Plan, i, j int) simkit.Plan {
	c := p.(*Plan).Clone()
	c.Ops = append(c.Ops[:i], c.Ops[j:]...)
	return c
}

//go:norace
func (Engine) Simplify(p simkit.Plan) []simkit.Plan {
	pl := p.(*Plan)
	var out []simkit.Plan
	add := func(f func(c *Plan) bool) {
		c := pl.Clone()
		if f(c) {
			out = append(out, c)
		}
	}
	add(func(c *Plan) bool { ch := c.Concurrent; c.Concurrent = false; return ch })
	add(func(c *Plan) bool { ch := c.Fails > 0; c.Fails = 0; return ch })
	add(func(c *Plan) bool { ch := c.Fails > 1; c.Fails--; return ch })
	add(func(c *Plan) bool { ch := c.ErrKinds > 0; c.ErrKinds = 0; return ch })
	add(func(c *Plan) bool { ch := c.SendErrAt > 0; c.SendErrAt = 0; return ch })
	add(func(c *Plan) bool { ch := c.RecvErrAt > 0; c.RecvErrAt = 0; return ch })
	add(func(c *Plan) bool { ch := c.BlockFirst; c.BlockFirst = false; return ch })
	add(func(c *Plan) bool { ch := c.Deadline > 0; c.Deadline = 0; return ch })
	for i, o := range pl.Ops {
		i := i
		if o.N != 0 {
			add(func(c *Plan) bool { c.Ops[i].N = 0; return true })
		}
		if o.Task != 0 {
			add(func(c *Plan) bool { c.Ops[i].Task = 0; return true })
		}
	}
	return out
}

//go:norace
func (Engine) Relevant(res *simkit.Result, prop string) bool {
	return res.Counters["op:send"]+res.Counters["op:recv"]+res.Counters["op:probe"]+res.Counters["op:unary"] > 0
}
