// Package poolsim (import path .../poolsim/v2) declares a message type whose
// printed name, "poolsim.Msg", is the same as that of the harness's main message
// type although it is a different Go type - two versions of one API commonly
// look like that. It has a single field: every key path except "name" fails on
// it with an ordinary extraction error.
package poolsim

type Msg struct {
	Name string
}
