// Package poolsim simulates the grpc_gcp channel-pool balancer, its pickers and
// the interceptor path against a fake gRPC channel core.
//
// Real code: gcpBalancer, gcpPicker, interceptors, config parser (reached only
// through balancer.Get("grpc_gcp"), the pickers it publishes and the exported
// interceptors). Stub: the channel core behind balancer.ClientConn /
// balancer.SubConn (this file), which reproduces what grpc-go 1.56.3 guarantees
// and the library depends on: serialized balancer callbacks, NewSubConn
// rejecting an empty address list (balancer_conn_wrappers.go), picker
// publication, Done(DoneInfo{}) + re-pick for a not-ready pick
// (picker_wrapper.go), SHUTDOWN only after removal.
package poolsim

import (
	"errors"
	"fmt"
	"sync"
	"time"

	"google.golang.org/grpc/balancer"
	"google.golang.org/grpc/connectivity"
	"google.golang.org/grpc/resolver"

	"verif.local/vsync/kern"
)

type EvKind int

const (
	EvNewSC EvKind = iota
	EvNewSCFail
	EvRemoveSC
	EvUpdateState
	EvUpdateAddrs
	EvConnect
	EvResolveNow
	EvOpStart
	EvOpEnd
	EvPickInvoke
	EvPickReturn
	EvDoneInvoke
	EvDoneReturn
	EvPanic
)

var evNames = [...]string{"NewSubConn", "NewSubConnFail", "RemoveSubConn", "UpdateState", "UpdateAddresses", "Connect", "ResolveNow", "OpStart", "OpEnd", "PickInvoke", "PickReturn", "DoneInvoke", "DoneReturn", "Panic"}

//go:norace
func (k EvKind) String() string { return evNames[k] }

// Phase of the task that caused an event.
type Phase int

const (
	PhNone Phase = iota
	PhCore
	PhPick
	PhDone
)

// Event is one observable of a run. The model consumes the stream in order.
type Event struct {
	Seq   int
	Step  uint64
	At    time.Duration // simulated time since start
	Op    int           // plan operation that caused it (-1 setup, >= len(ops) heal)
	Phase Phase
	Kind  EvKind
	Conn  int // connection id, -1 none
	State connectivity.State
	Pub   int // publication index for UpdateState
	Call  int
	Addrs string
	Note  string
}

//go:norace
func (e Event) String() string {
	s := fmt.Sprintf("#%d t=%v op=%d %s", e.Seq, e.At, e.Op, e.Kind)
	if e.Conn >= 0 {
		s += fmt.Sprintf(" conn=%d", e.Conn)
	}
	if e.Kind == EvUpdateState {
		s += fmt.Sprintf(" state=%v pub=%d", e.State, e.Pub)
	}
	if e.Call >= 0 {
		s += fmt.Sprintf(" call=%d", e.Call)
	}
	if e.Addrs != "" {
		s += " addrs=" + e.Addrs
	}
	if e.Note != "" {
		s += " " + e.Note
	}
	return s
}

// TaskTag is attached to every harness task so that environment calls can be
// attributed to the operation and phase that made them.
type TaskTag struct {
	Op    int
	Phase Phase
	Call  int
}

// FakeSC is the simulated SubConn (one transport state machine).
type FakeSC struct {
	balancer.SubConn // forward compatibility: unimplemented methods panic
	env              *Env
	ID               int
	Addrs            string
	Connects         int
	ConnectsSeq      int // event seq of the latest Connect()
	AddrsSeq         int
	Truth            connectivity.State // environment-side state of the transport
	Removed          bool
	CreatedPhase     Phase
	CreatedOp        int
	CreatedCall      int
	ShutdownSent     bool
}

//go:norace
func (s *FakeSC) SimID() int { return s.ID }

//go:norace
func (s *FakeSC) String() string { return fmt.Sprintf("sc%d", s.ID) }

//go:norace
func (s *FakeSC) UpdateAddresses(a []resolver.Address) {
	s.env.k.Yield("env:UpdateAddresses")
	s.Addrs = addrsString(a)
	e := s.env.add(Event{Kind: EvUpdateAddrs, Conn: s.ID, Addrs: s.Addrs})
	s.AddrsSeq = e
}

//go:norace
func (s *FakeSC) Connect() {
	s.env.k.Yield("env:Connect")
	s.Connects++
	s.ConnectsSeq = s.env.add(Event{Kind: EvConnect, Conn: s.ID})
}

//go:norace
func (s *FakeSC) GetOrBuildProducer(balancer.ProducerBuilder) (balancer.Producer, func()) {
	return nil, func() {}
}

//go:norace
func addrsString(a []resolver.Address) string {
	s := "["
	for i, x := range a {
		if i > 0 {
			s += ","
		}
		s += x.Addr
		if x.ServerName != "" {
			s += "/" + x.ServerName
		}
	}
	return s + "]"
}

// Pub is one (state, picker) pair published through ClientConn.UpdateState.
type Pub struct {
	State  connectivity.State
	Picker balancer.Picker
	Seq    int
}

// Env is the fake channel core.
type Env struct {
	k       *kern.Kernel
	Conns   []*FakeSC
	Events  []Event
	Pubs    []Pub
	FailNew int // upcoming NewSubConn calls that fail (connection factory error)
	// SlowRemove: RemoveSubConn takes this long (simulated); NSlow counts such calls
	SlowRemove time.Duration
	NSlow      int
	// pubMu is the synchronisation gRPC really provides between a balancer
	// publishing a picker and RPC goroutines using it (picker wrapper mutex);
	// coreMu chains successive balancer callbacks (one serializer goroutine in
	// gRPC, one task each here). Both are real mutexes so that the race detector
	// sees exactly these happens-before edges and no others.
	pubMu     sync.Mutex
	coreMu    sync.Mutex
	Fired     map[string]int // scheduler side only
	taskFired []string       // task side (no shared maps under the race detector)
}

//go:norace
func NewEnv(k *kern.Kernel) *Env { return &Env{k: k, Fired: map[string]int{}} }

//go:norace
func (e *Env) tag() *TaskTag {
	if t := e.k.Me(); t != nil {
		if tg, ok := t.Tag.(*TaskTag); ok {
			return tg
		}
	}
	return &TaskTag{Op: -1, Call: -1}
}

//go:norace
func (e *Env) add(ev Event) int {
	tg := e.tag()
	ev.Seq = len(e.Events)
	ev.Step = e.k.Steps()
	ev.At = e.k.Elapsed()
	ev.Op, ev.Phase = tg.Op, tg.Phase
	if ev.Kind < EvOpStart {
		ev.Call = tg.Call
	}
	e.Events = kern.Push(e.Events, ev)
	e.k.Logf("ev %s", ev)
	return ev.Seq
}

// FakeCC is the balancer.ClientConn handed to Builder.Build.
type FakeCC struct {
	env *Env
}

var errEmptyAddrs = errors.New("grpc: cannot create SubConn with empty address list")
var errFactory = errors.New("simulated connection factory failure")

//go:norace
func (c *FakeCC) NewSubConn(a []resolver.Address, o balancer.NewSubConnOptions) (balancer.SubConn, error) {
	e := c.env
	e.k.Yield("env:NewSubConn")
	if len(a) == 0 {
		e.taskFired = kern.Push(e.taskFired, "newsubconn_empty_addrs")
		e.add(Event{Kind: EvNewSCFail, Conn: -1, Note: "empty"})
		return nil, errEmptyAddrs
	}
	if e.FailNew > 0 {
		e.FailNew--
		e.taskFired = kern.Push(e.taskFired, "newsubconn_factory_error")
		e.add(Event{Kind: EvNewSCFail, Conn: -1, Note: "factory"})
		return nil, errFactory
	}
	tg := e.tag()
	sc := &FakeSC{env: e, ID: len(e.Conns), Addrs: addrsString(a), Truth: connectivity.Idle,
		CreatedPhase: tg.Phase, CreatedOp: tg.Op, CreatedCall: tg.Call}
	e.Conns = kern.Push(e.Conns, sc)
	sc.AddrsSeq = e.add(Event{Kind: EvNewSC, Conn: sc.ID, Addrs: sc.Addrs})
	return sc, nil
}

//go:norace
func (c *FakeCC) RemoveSubConn(sc balancer.SubConn) {
	e := c.env
	e.k.Yield("env:RemoveSubConn")
	f, ok := sc.(*FakeSC)
	if !ok {
		e.add(Event{Kind: EvRemoveSC, Conn: -1, Note: "foreign"})
		return
	}
	note := ""
	if f.Removed {
		note = "again"
	}
	f.Removed = true
	e.add(Event{Kind: EvRemoveSC, Conn: f.ID, Note: note})
	if e.SlowRemove > 0 {
		// plan.SlowCC: the channel takes its time to tear the connection down (the
		// caller - a balancer callback - waits; simulated time passes inside it)
		e.NSlow++
		e.k.Sleep(e.SlowRemove)
	}
}

//go:norace
func (c *FakeCC) UpdateAddresses(sc balancer.SubConn, a []resolver.Address) {
	if f, ok := sc.(*FakeSC); ok {
		f.UpdateAddresses(a)
	}
}

//go:norace
func (c *FakeCC) UpdateState(s balancer.State) {
	e := c.env
	e.k.Yield("env:UpdateState")
	e.pubMu.Lock()
	e.Pubs = kern.Push(e.Pubs, Pub{State: s.ConnectivityState, Picker: s.Picker})
	e.pubMu.Unlock()
	i := len(e.Pubs) - 1
	e.Pubs[i].Seq = e.add(Event{Kind: EvUpdateState, Conn: -1, State: s.ConnectivityState, Pub: i})
}

//go:norace
func (c *FakeCC) ResolveNow(resolver.ResolveNowOptions) {
	c.env.add(Event{Kind: EvResolveNow, Conn: -1})
}

//go:norace
func (c *FakeCC) Target() string { return "sim:///pool" }
