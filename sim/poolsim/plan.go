package poolsim

import (
	"encoding/json"
	"math/rand/v2"
	"os"

	"verif.local/vsync/kern"
)

type OpKind int

const (
	OpResolver OpKind = iota
	OpResErr
	OpConn
	OpPick
	OpDone
	OpAdvance
	OpCancel
	OpFailNew
	OpSteps
	OpMutateCfg
	OpMark   // concurrent plans: everything quiesces, the per-channel load is remembered
	OpSpread // concurrent plans: everything quiesces; the load since the mark must have spread evenly
	nOpKinds
)

var opNames = [...]string{"resolver", "reserr", "conn", "pick", "done", "advance", "cancel", "failnew", "steps", "mutatecfg", "mark", "spread"}

//go:norace
func (k OpKind) String() string { return opNames[k] }

// Op is one symbolic plan operation. Selectors are taken modulo the current
// population when the operation executes; an operation that does not apply is a
// no-op, so removing or simplifying operations always yields a valid plan.
type Op struct {
	K    OpKind `json:"k"`
	A    int    `json:"a,omitempty"`
	B    int    `json:"b,omitempty"`
	C    int    `json:"c,omitempty"`
	D    int    `json:"d,omitempty"`
	E    int    `json:"e,omitempty"`
	Keys []int  `json:"keys,omitempty"`
	F    int    `json:"f,omitempty"`  // flags
	N    int    `json:"n,omitempty"`  // concurrent mode: kernel steps to run after starting the operation
	ID   int    `json:"id,omitempty"` // stable identity (survives shrinking): task keys in tapes derive from it
}

const (
	FlagNoGCP   = 1 << iota // pick without the interceptor context
	FlagStream              // go through the stream interceptor
	FlagOdd                 // environment-illegal report (fault)
	FlagEmpty               // resolver update with an empty address list
	FlagNilMsg              // nil request message
	FlagChain               // caller's context derives from an earlier intercepted call's context
	FlagRetry               // completed with an error, the call is attempted once more with the same context (gRPC's retries)
	FlagRepick              // told to wait, the call is picked again (same context) once a newer picker exists, as gRPC does
	FlagOverlap             // serial plans, completion followed by a connection report: the completion callback runs only Op.N scheduling decisions before the report starts (they overlap)
)

// Conn event selectors (Op.B for OpConn).
const (
	ConnProgress  = iota // idle->connecting (after Connect), connecting->ready
	ConnFail             // connecting->TF, ready->idle, TF->idle
	ConnShutdown         // removed connection reports SHUTDOWN
	ConnDuplicate        // last report delivered again
	nConnEv
)

// Done outcomes (Op.B for OpDone).
const (
	OutOK = iota
	OutAppErr
	OutClientDE
	OutServerDE
	OutOtherDE
	OutCancelled
	OutRepick
	nOutcomes
)

// Methods.
const (
	MPlain = iota
	MBind
	MBound
	MUnbind
	MNoAff
	MExtra0 // methods from extra config entries follow
)

var methodNames = []string{"/svc/Plain", "/svc/Bind", "/svc/Bound", "/svc/Unbind", "/svc/NoAff", "/svc/X0", "/svc/X1", "/svc/X2",
	// never configured, odd but possible: the empty method name and one without the leading slash
	"", "svc/NoSlash"}

const MOdd0 = 8

// Locator variants.
var locators = []string{"name", "nested.name", "names", "items.name", "nosuch.field", "num", "", ".name", "name.", "nested..name", "items.", "nested.name.x", "."}

const nGoodLocators = 4

// ExtraEntry is an additional method entry of the config (C17): names from the
// extra method universe, command and whether it has an affinity section.
type ExtraEntry struct {
	Names  []int `json:"names"` // indexes into methodNames[MExtra0:]
	Cmd    int   `json:"cmd"`   // 0 BOUND 1 BIND 2 UNBIND 3 a number the enum does not define
	HasAff bool  `json:"has_aff"`
}

// CfgSpec describes the ApiConfig handed to the balancer.
type CfgSpec struct {
	Min         uint32       `json:"min"`
	Max         uint32       `json:"max"`
	WM          uint32       `json:"wm"`
	Fallback    bool         `json:"fallback"`
	UCalls      uint32       `json:"ucalls"`
	UMs         uint32       `json:"ums"`
	RR          bool         `json:"rr"`
	Locator     int          `json:"locator"`
	NilPool     bool         `json:"nil_pool"`
	NilCfg      bool         `json:"nil_cfg"`
	OddStrategy bool         `json:"odd_strategy,omitempty"` // bind_pick_strategy is a number the enum does not define
	Idle        uint64       `json:"idle,omitempty"`         // channelPool.idle_timeout (a field no statement gives a meaning to)
	Extra       []ExtraEntry `json:"extra,omitempty"`
}

// Plan is everything a run is a function of (together with the tape).
type Plan struct {
	Seed       uint64  `json:"seed"`
	Profile    string  `json:"profile"`
	Cfg        CfgSpec `json:"cfg"`
	Concurrent bool    `json:"concurrent"`
	Strategy   int     `json:"strategy"` // 0 random walk, 1..3 PCT depth
	Legal      bool    `json:"legal"`    // environment delivers only legal transport transitions
	// LiveShutdown: odd reports may include SHUTDOWN for a connection the
	// balancer did not remove (never done by grpc-go; C05 only, see run.go)
	LiveShutdown bool `json:"live_shutdown,omitempty"`
	// CloseEnd: the run ends with gRPC closing the balancer while calls are in
	// flight (instead of the heal phase)
	CloseEnd bool `json:"close_end,omitempty"`
	// Verbose: gRPC log verbosity 99 for this run (code under log.V(...) runs)
	Verbose bool `json:"verbose,omitempty"`
	// SharedAddrs: the resolver's address lists are windows into ONE array it owns
	// (prefixes of each other, the longer lists in the spare capacity of the shorter)
	SharedAddrs bool `json:"shared_addrs,omitempty"`
	// OddKeys: affinity key strings are long / contain separators, spaces, NUL and
	// non-ASCII characters instead of "k<i>"
	OddKeys bool `json:"odd_keys,omitempty"`
	// HashKeys: the first keys are pairs of different strings with equal hash values
	// under the usual string hashes (32-bit FNV-1a and FNV-1, Java's 31-multiplier)
	HashKeys bool `json:"hash_keys,omitempty"`
	// Second: at the end the application edits its configuration object in place
	// and uses it for a second balancer
	Second bool `json:"second,omitempty"`
	// DynMsg: keyed calls use a message type made for this run (reflect.StructOf)
	DynMsg bool `json:"dyn_msg,omitempty"`
	// TwinStart: concurrent plans - a second balancer configured from the same
	// JSON text gets its first resolver update concurrently with the first one's
	TwinStart bool `json:"twin_start,omitempty"`
	// UniField: the key field addressed by the locator "name" is called "ключ"
	UniField bool `json:"uni_field,omitempty"`
	// SlowCC: the fake ClientConn's RemoveSubConn takes 250 ms of simulated time
	// (serial plans only; the clock moves on until the callback has returned)
	SlowCC bool `json:"slow_cc,omitempty"`
	// MassKeys: the plan carries the "thousands of keys on stand-ins" fragment
	MassKeys bool `json:"mass_keys,omitempty"`
	// ScaleMix: the plan carries the "pool starts with 17-40 channels" fragment
	ScaleMix bool `json:"scale_mix,omitempty"`
	Ops      []Op `json:"ops"`
	// Suffix: concurrent plans only - a short serial operation list executed with
	// the full model after the burst has quiesced and healed (fresh keys only).
	Suffix []Op `json:"suffix,omitempty"`
}

//go:norace
func (p *Plan) JSON() string { b, _ := json.Marshal(p); return string(b) }

//go:norace
func (p *Plan) Clone() *Plan {
	c := *p
	c.Ops = make([]Op, len(p.Ops))
	for i, o := range p.Ops {
		c.Ops[i] = o
		c.Ops[i].Keys = append([]int(nil), o.Keys...)
	}
	c.Cfg.Extra = append([]ExtraEntry(nil), p.Cfg.Extra...)
	c.Suffix = make([]Op, len(p.Suffix))
	for i, o := range p.Suffix {
		c.Suffix[i] = o
		c.Suffix[i].Keys = append([]int(nil), o.Keys...)
	}
	return &c
}

// Profile weights: how often each operation kind is generated.
type weights struct {
	op       [nOpKinds]int
	method   [5]int
	outcome  [nOutcomes]int
	stale    int // % of picks on a stale picker
	oddPct   int // % of conn ops that are environment-illegal (only when !Legal)
	connFail int // % of conn ops that are failures rather than progress
}

// Avoid describes generator avoidance switches for known findings (DESIGN §10).
type Avoid struct {
	EmptyKeyList bool
}

var profiles = map[string]func(r *rand.Rand, p *Plan) weights{
	"affinity": func(r *rand.Rand, p *Plan) weights {
		p.Cfg = baseCfg(r)
		p.Cfg.Fallback = false
		p.Cfg.RR = false
		if r.IntN(3) == 0 {
			p.Cfg.UCalls, p.Cfg.UMs = 1+uint32(r.IntN(2)), uint32(10*(1+r.IntN(5)))
		}
		return weights{op: [nOpKinds]int{OpResolver: 1, OpConn: 22, OpPick: 40, OpDone: 28, OpAdvance: 5, OpSteps: 4},
			method: [5]int{MPlain: 15, MBind: 30, MBound: 35, MUnbind: 15, MNoAff: 5}, outcome: [nOutcomes]int{OutOK: 70, OutAppErr: 12, OutClientDE: 10, OutServerDE: 3, OutCancelled: 3, OutRepick: 2}, stale: 15, connFail: 35}
	},
	"load": func(r *rand.Rand, p *Plan) weights {
		p.Cfg = baseCfg(r)
		p.Cfg.RR = r.IntN(4) == 0
		return weights{op: [nOpKinds]int{OpResolver: 1, OpConn: 18, OpPick: 45, OpDone: 30, OpAdvance: 3, OpSteps: 3},
			method: [5]int{MPlain: 60, MBind: 15, MBound: 10, MUnbind: 5, MNoAff: 10}, outcome: [nOutcomes]int{OutOK: 40, OutAppErr: 20, OutClientDE: 12, OutServerDE: 8, OutOtherDE: 5, OutCancelled: 8, OutRepick: 7}, stale: 20, connFail: 30}
	},
	"growth": func(r *rand.Rand, p *Plan) weights {
		p.Cfg = baseCfg(r)
		p.Cfg.WM = 1 + uint32(r.IntN(2))
		p.Cfg.RR = false
		return weights{op: [nOpKinds]int{OpResolver: 1, OpConn: 25, OpPick: 48, OpDone: 18, OpAdvance: 2, OpSteps: 6},
			method: [5]int{MPlain: 80, MBind: 10, MBound: 5, MUnbind: 0, MNoAff: 5}, outcome: [nOutcomes]int{OutOK: 60, OutAppErr: 20, OutClientDE: 5, OutServerDE: 5, OutCancelled: 5, OutRepick: 5}, stale: 25, connFail: 20}
	},
	"state": func(r *rand.Rand, p *Plan) weights {
		p.Cfg = baseCfg(r)
		if r.IntN(2) == 0 {
			p.Cfg.UCalls, p.Cfg.UMs = 1, uint32(10*(1+r.IntN(3)))
		}
		return weights{op: [nOpKinds]int{OpResolver: 2, OpResErr: 1, OpConn: 50, OpPick: 25, OpDone: 15, OpAdvance: 5, OpSteps: 2},
			method: [5]int{MPlain: 80, MBind: 10, MBound: 5, MUnbind: 0, MNoAff: 5}, outcome: [nOutcomes]int{OutOK: 30, OutAppErr: 10, OutClientDE: 50, OutServerDE: 5, OutCancelled: 3, OutRepick: 2}, stale: 20, connFail: 45, oddPct: 25}
	},
	"chaos": func(r *rand.Rand, p *Plan) weights {
		p.Cfg = baseCfg(r)
		p.Cfg.Fallback = r.IntN(3) > 0
		p.Cfg.RR = r.IntN(3) == 0
		if r.IntN(2) == 0 {
			p.Cfg.UCalls, p.Cfg.UMs = 1+uint32(r.IntN(2)), uint32(10*(1+r.IntN(5)))
		}
		if r.IntN(3) == 0 {
			p.Cfg.Locator = r.IntN(len(locators))
		}
		p.Cfg.NilPool = r.IntN(12) == 0
		p.Cfg.NilCfg = r.IntN(20) == 0
		return weights{op: [nOpKinds]int{OpResolver: 4, OpResErr: 1, OpConn: 25, OpPick: 35, OpDone: 22, OpAdvance: 5, OpCancel: 2, OpFailNew: 3, OpSteps: 3},
			method: [5]int{MPlain: 20, MBind: 25, MBound: 30, MUnbind: 15, MNoAff: 10}, outcome: [nOutcomes]int{OutOK: 50, OutAppErr: 12, OutClientDE: 20, OutServerDE: 5, OutOtherDE: 3, OutCancelled: 5, OutRepick: 5}, stale: 30, connFail: 45, oddPct: 20}
	},
	"refresh": func(r *rand.Rand, p *Plan) weights {
		p.Cfg = baseCfg(r)
		p.Cfg.UCalls, p.Cfg.UMs = uint32(r.IntN(4)), uint32([]int{0, 10, 20, 50, 100, 1000}[r.IntN(6)])
		p.Cfg.RR = r.IntN(5) == 0
		return weights{op: [nOpKinds]int{OpResolver: 1, OpConn: 18, OpPick: 30, OpDone: 30, OpAdvance: 16, OpFailNew: 2, OpSteps: 3},
			method: [5]int{MPlain: 60, MBind: 15, MBound: 15, MUnbind: 5, MNoAff: 5}, outcome: [nOutcomes]int{OutOK: 15, OutAppErr: 5, OutClientDE: 60, OutServerDE: 10, OutOtherDE: 4, OutCancelled: 4, OutRepick: 2}, stale: 15, connFail: 25}
	},
	"fallback": func(r *rand.Rand, p *Plan) weights {
		p.Cfg = baseCfg(r)
		p.Cfg.Fallback = true
		p.Cfg.RR = false
		if r.IntN(2) == 0 {
			p.Cfg.WM = 1 + uint32(r.IntN(2))
		}
		if r.IntN(3) == 0 {
			p.Cfg.UCalls, p.Cfg.UMs = 1, uint32(10*(1+r.IntN(3)))
		}
		if p.Cfg.Min < 2 {
			p.Cfg.Min = 2
		}
		if p.Cfg.Max != 0 && p.Cfg.Max < p.Cfg.Min {
			p.Cfg.Max = p.Cfg.Min
		}
		return weights{op: [nOpKinds]int{OpResolver: 1, OpConn: 32, OpPick: 38, OpDone: 22, OpAdvance: 4, OpSteps: 3},
			method: [5]int{MPlain: 12, MBind: 28, MBound: 45, MUnbind: 10, MNoAff: 5}, outcome: [nOutcomes]int{OutOK: 75, OutAppErr: 10, OutClientDE: 8, OutServerDE: 2, OutCancelled: 3, OutRepick: 2}, stale: 10, connFail: 50}
	},
	"rr": func(r *rand.Rand, p *Plan) weights {
		p.Cfg = baseCfg(r)
		p.Cfg.RR = true
		if r.IntN(3) == 0 {
			p.Cfg.UCalls, p.Cfg.UMs = 1, uint32(10*(1+r.IntN(3)))
		}
		return weights{op: [nOpKinds]int{OpResolver: 1, OpConn: 22, OpPick: 42, OpDone: 20, OpAdvance: 8, OpCancel: 5, OpSteps: 2},
			method: [5]int{MPlain: 25, MBind: 60, MBound: 10, MUnbind: 0, MNoAff: 5}, outcome: [nOutcomes]int{OutOK: 60, OutAppErr: 15, OutClientDE: 15, OutServerDE: 2, OutCancelled: 5, OutRepick: 3}, stale: 10, connFail: 40}
	},
	"resolver": func(r *rand.Rand, p *Plan) weights {
		p.Cfg = baseCfg(r)
		if r.IntN(2) == 0 {
			p.Cfg.UCalls, p.Cfg.UMs = 1, uint32(10*(1+r.IntN(3)))
		}
		p.Cfg.WM = 1 + uint32(r.IntN(3))
		return weights{op: [nOpKinds]int{OpResolver: 12, OpResErr: 5, OpConn: 28, OpPick: 28, OpDone: 18, OpAdvance: 6, OpSteps: 3},
			method: [5]int{MPlain: 85, MBind: 5, MBound: 5, MUnbind: 0, MNoAff: 5}, outcome: [nOutcomes]int{OutOK: 35, OutAppErr: 10, OutClientDE: 45, OutServerDE: 5, OutCancelled: 3, OutRepick: 2}, stale: 10, connFail: 25}
	},
	"config": func(r *rand.Rand, p *Plan) weights {
		p.Cfg = baseCfg(r)
		p.Cfg.Min = uint32(r.IntN(4))
		p.Cfg.Max = uint32(r.IntN(6))
		if p.Cfg.Max != 0 && p.Cfg.Max < p.Cfg.Min {
			p.Cfg.Max = p.Cfg.Min
		}
		p.Cfg.WM = uint32(r.IntN(4))
		p.Cfg.NilPool = r.IntN(8) == 0
		p.Cfg.NilCfg = r.IntN(12) == 0
		// every extra method name is listed at most once (the statement covers
		// names "listed (once)"; duplicates are unspecified)
		perm := r.Perm(3)
		n := r.IntN(3)
		for i := 0; i < n && len(perm) > 0; i++ {
			e := ExtraEntry{Cmd: r.IntN(3), HasAff: r.IntN(4) > 0}
			if r.IntN(6) == 0 {
				e.Cmd = 3 // a command number this version of the enum does not define (proto3 enums are open)
			}
			for j := 0; j < 1+r.IntN(2) && len(perm) > 0; j++ {
				e.Names = append(e.Names, perm[0])
				perm = perm[1:]
			}
			p.Cfg.Extra = append(p.Cfg.Extra, e)
		}
		return weights{op: [nOpKinds]int{OpResolver: 6, OpConn: 25, OpPick: 40, OpDone: 20, OpAdvance: 2, OpMutateCfg: 4, OpSteps: 3},
			method: [5]int{MPlain: 30, MBind: 25, MBound: 25, MUnbind: 10, MNoAff: 10}, outcome: [nOutcomes]int{OutOK: 70, OutAppErr: 15, OutClientDE: 5, OutServerDE: 3, OutCancelled: 4, OutRepick: 3}, stale: 10, connFail: 25}
	},
}

//go:norace
func baseCfg(r *rand.Rand) CfgSpec {
	c := CfgSpec{}
	c.Min = uint32(r.IntN(4)) // 0 = absent
	c.Max = uint32(r.IntN(5))
	if c.Max != 0 && c.Max < c.Min && r.IntN(10) > 0 {
		c.Max = c.Min
	}
	switch r.IntN(4) {
	case 0:
		c.WM = 0
	default:
		c.WM = 1 + uint32(r.IntN(3))
	}
	if r.IntN(12) == 0 {
		// more channels at start than the default maximum, and no maximum given
		c.Min, c.Max = uint32(5+r.IntN(3)), 0
	}
	// the extremes of the uint32 fields ("no limit"): sizes and watermarks beyond
	// int32, as large as the type allows
	if r.IntN(15) == 0 {
		c.Max = []uint32{1<<31 - 1, 1 << 31, 1<<32 - 1}[r.IntN(3)]
	}
	if r.IntN(30) == 0 {
		c.WM = []uint32{1 << 31, 1<<32 - 1}[r.IntN(2)]
	}
	c.Fallback = r.IntN(2) == 0
	c.RR = r.IntN(4) == 0
	c.Locator = r.IntN(nGoodLocators)
	if r.IntN(4) == 0 {
		c.Idle = []uint64{1, 2, 60, 3600}[r.IntN(4)] // seconds
	}
	c.OddStrategy = !c.RR && r.IntN(8) == 0
	return c
}

//go:norace
func pickW(r *rand.Rand, w []int) int {
	t := 0
	for _, x := range w {
		t += x
	}
	if t == 0 {
		return 0
	}
	v := r.IntN(t)
	for i, x := range w {
		if v < x {
			return i
		}
		v -= x
	}
	return 0
}

// Generate draws a plan for the profile from the PRNG.
//
//go:norace
func Generate(r *rand.Rand, profile string, concurrent bool, av Avoid) *Plan {
	p := &Plan{Profile: profile, Concurrent: concurrent, Legal: true}
	w := profiles[profile](r, p)
	if w.oddPct > 0 && r.IntN(2) == 0 {
		p.Legal = false
	}
	if !concurrent && (profile == "chaos" || profile == "state" || profile == "refresh") && r.IntN(6) == 0 {
		p.LiveShutdown = true
	}
	if !concurrent && profile == "chaos" && r.IntN(4) == 0 {
		p.LiveShutdown = true
	}
	if !concurrent && profile == "fallback" && r.IntN(8) == 0 {
		p.LiveShutdown = true
	}
	if concurrent && (profile == "growth" || profile == "chaos") && r.IntN(8) == 0 {
		// bursts too: from the first such report on only the crash / progress oracles
		// and C03's "no growth while a channel is idle or connecting" remain
		p.LiveShutdown = true
	}
	if !concurrent && r.IntN(10) == 0 {
		p.CloseEnd = true
	}
	p.Verbose = r.IntN(8) == 0 || (profile == "chaos" && r.IntN(4) == 0)
	p.Second = !concurrent && r.IntN(6) == 0
	p.TwinStart = concurrent && r.IntN(5) == 0
	p.DynMsg = r.IntN(4) == 0
	p.UniField = r.IntN(5) == 0
	p.SharedAddrs = r.IntN(4) == 0
	p.OddKeys = r.IntN(6) == 0
	p.HashKeys = !p.OddKeys && r.IntN(6) == 0
	if concurrent {
		p.Strategy = r.IntN(6) // 0 random walk, 1-3 PCT depth, 4-5 one long stall
	}
	nOps := 8 + r.IntN(50)
	if r.IntN(4) == 0 {
		nOps = 4 + r.IntN(12)
	}
	// swarm: disable some op kinds per run
	for k := OpKind(0); k < nOpKinds; k++ {
		if k == OpPick || k == OpConn || k == OpDone {
			continue
		}
		if r.IntN(3) == 0 {
			w.op[k] = 0
		}
	}
	if !concurrent {
		w.op[OpSteps] = 0
	}
	nKeys := 2 + r.IntN(3)
	for i := 0; i < nOps; i++ {
		o := Op{K: OpKind(pickW(r, w.op[:]))}
		if i == 0 && r.IntN(20) > 0 {
			o.K = OpResolver // nothing happens before the first resolver update
		}
		if i > 0 && i < 4 && r.IntN(2) == 0 {
			o.K = OpConn // bring connections up early in most runs
		}
		switch o.K {
		case OpResolver:
			o.A = r.IntN(3)
			if r.IntN(5) == 0 {
				o.A = 3 + r.IntN(6) // three-address, two long lists (one the other's tail), two permutations, server-name variant
			}
			o.B = r.IntN(2)
			o.C = r.IntN(4) // what else the resolver state carries: 2 a service config that did not parse, 3 attributes
			if r.IntN(8) == 0 && (profile == "chaos") {
				o.F |= FlagEmpty
			}
		case OpConn:
			o.A = r.IntN(8)
			if r.IntN(4) == 0 {
				o.A = -1 // the most recently created connection
			}
			if r.IntN(100) < w.connFail {
				o.B = ConnFail
			} else {
				o.B = ConnProgress
			}
			switch r.IntN(12) {
			case 0:
				o.B = ConnShutdown
			case 1:
				o.B = ConnDuplicate
			}
			if !p.Legal && r.IntN(100) < w.oddPct {
				o.F |= FlagOdd
				o.C = r.IntN(5) // state
			}
		case OpPick:
			o.A = r.IntN(4)
			o.B = pickW(r, w.method[:])
			if len(p.Cfg.Extra) > 0 && r.IntN(4) == 0 {
				o.B = MExtra0 + r.IntN(3)
			}
			nk := 1
			if (p.Cfg.Locator == 2 || p.Cfg.Locator == 3) && r.IntN(3) == 0 {
				nk = r.IntN(4) // 0 => empty repeated field
				if nk == 0 && av.EmptyKeyList && o.B != MBind {
					nk = 1
				}
			}
			for j := 0; j < nk; j++ {
				o.Keys = append(o.Keys, r.IntN(nKeys))
			}
			stale := w.stale
			if concurrent && stale < 25 {
				stale = 25 // picks on superseded pickers run under a different picker mutex: the interesting overlap
			}
			if r.IntN(100) < stale {
				o.C = 1 + r.IntN(4)
			}
			switch r.IntN(10) {
			case 0, 1, 2, 3:
				o.D = 1
				o.E = []int{1, 5, 10, 20, 50, 100, 500}[r.IntN(7)]
			case 4:
				if profile == "chaos" || profile == "rr" {
					o.D = 2
				}
			case 5:
				// the application's request-scoped context: one context with a deadline
				// shared by several calls, some of them started when it is about to
				// end or has just ended (its cancellation lags the deadline a little)
				o.D = 3
				o.E = []int{1, 5, 10, 20, 50}[r.IntN(5)]
			}
			if (profile == "affinity" || profile == "fallback") && r.IntN(15) == 0 {
				o.F |= FlagStream // C12: the first message of a stream is visible to the picker
			}
			if (profile == "affinity" || profile == "fallback" || profile == "chaos") && r.IntN(12) == 0 {
				o.F |= FlagChain
			}
			if r.IntN(3) == 0 {
				o.F |= FlagRepick
			}
			if r.IntN(4) == 0 {
				o.F |= FlagRetry
			}
			if profile == "chaos" {
				if r.IntN(12) == 0 {
					o.F |= FlagNoGCP
				}
				if r.IntN(10) == 0 {
					o.F |= FlagStream
				}
				if r.IntN(25) == 0 {
					o.F |= FlagNilMsg
				}
				if r.IntN(30) == 0 {
					o.B = MOdd0 + r.IntN(2)
				}
			}
		case OpDone:
			o.A = r.IntN(8)
			o.B = pickW(r, w.outcome[:])
			nk := 1
			if (p.Cfg.Locator == 2 || p.Cfg.Locator == 3) && r.IntN(3) == 0 {
				nk = r.IntN(4)
			}
			for j := 0; j < nk; j++ {
				o.Keys = append(o.Keys, r.IntN(nKeys))
			}
		case OpAdvance:
			o.A = r.IntN(6)
			o.B = r.IntN(4)
			o.E = []int{1, 5, 10, 20, 50, 100, 500, 5000}[r.IntN(8)]
		case OpCancel:
			o.A = r.IntN(8)
		case OpFailNew:
			o.A = 1 + r.IntN(2)
		case OpSteps:
			o.A = 1 + r.IntN(30)
		}
		if concurrent {
			o.N = r.IntN(12)
			if r.IntN(3) == 0 {
				o.N = 0
			}
		}
		p.Ops = append(p.Ops, o)
	}
	// Directed fragment (swarm bias): bind a key, take its home channel down,
	// then keyed calls on the latest and on superseded pickers. Random histories
	// reach this conjunction rarely; it is where affinity, fallback and their
	// locking interact.
	if (profile == "affinity" || profile == "fallback" || profile == "chaos") && r.IntN(3) == 0 && len(p.Ops) > 4 {
		k := r.IntN(nKeys)
		frag := []Op{
			// bring (up to) three connections up first: the fragment needs a stand-in
			{K: OpConn, A: 0, B: ConnProgress}, {K: OpConn, A: 0, B: ConnProgress},
			{K: OpConn, A: 1, B: ConnProgress}, {K: OpConn, A: 1, B: ConnProgress},
			{K: OpConn, A: 2, B: ConnProgress}, {K: OpConn, A: 2, B: ConnProgress},
			{K: OpPick, B: MBind, Keys: []int{k}},
			{K: OpDone, A: -1, B: OutOK, Keys: []int{k}},
			{K: OpConn, A: -2, B: ConnFail},
			{K: OpPick, B: MBound, Keys: []int{k}},
			{K: OpPick, B: MBound, Keys: []int{k}, C: 1 + r.IntN(3)},
			{K: OpPick, B: MBound, Keys: []int{k}},
		}
		if r.IntN(2) == 0 {
			frag = append(frag, Op{K: OpConn, A: -2, B: ConnProgress}, Op{K: OpConn, A: -2, B: ConnProgress}, Op{K: OpPick, B: MBound, Keys: []int{k}})
		}
		if concurrent {
			// a possible stand-in fails while the first keyed call is being placed
			ins := Op{K: OpConn, A: r.IntN(3), B: ConnFail}
			frag = append(frag[:10], append([]Op{ins}, frag[10:]...)...)
			for i := range frag {
				frag[i].N = r.IntN(6)
			}
		}
		at := 3 + r.IntN(len(p.Ops)-3)
		ops := append([]Op{}, p.Ops[:at]...)
		ops = append(ops, frag...)
		p.Ops = append(ops, p.Ops[at:]...)
	}
	// Directed fragment: the same channel refreshed two to ten times in a row
	// with no response in between (all its calls run into their deadline), then
	// one more round whose wait is a small multiple of the detection window: the
	// only histories in which the backoff exponent exceeds 1.
	extremeWin := false // the plan waits for hours to weeks of simulated time
	if profile == "refresh" && !concurrent && p.Cfg.UMs > 0 && p.Cfg.UCalls > 0 && r.IntN(3) == 0 && len(p.Ops) > 4 {
		k := r.IntN(nKeys)
		n := int(p.Cfg.UCalls)
		frag := []Op{
			{K: OpConn, A: 0, B: ConnProgress}, {K: OpConn, A: 0, B: ConnProgress},
			{K: OpConn, A: 1, B: ConnProgress}, {K: OpConn, A: 1, B: ConnProgress},
			{K: OpPick, B: MBind, Keys: []int{k}},
			{K: OpDone, A: -1, B: OutOK, Keys: []int{k}},
		}
		rounds := 2 + r.IntN(2)
		if r.IntN(4) == 0 {
			rounds = 4 + r.IntN(7) // a long outage: the window doubles up to a thousandfold
		}
		if r.IntN(8) == 0 || os.Getenv("SIM_FORCE_EXTREME") != "" {
			// extreme but legal: detection windows of hours to weeks (any uint32 number
			// of milliseconds), or a window of a few milliseconds doubled more than
			// thirty times (no round-robin BIND there: a waiting one polls every 100 ms)
			p.Cfg.RR = false
			extremeWin = true
			switch r.IntN(4) {
			case 0:
				p.Cfg.UMs, rounds = 1<<31, 1+r.IntN(3)
			case 1:
				p.Cfg.UMs, rounds = 3000000000, 1+r.IntN(3)
			case 2:
				p.Cfg.UMs, rounds = 5000000, 9+r.IntN(3)
			default:
				p.Cfg.UMs, rounds = uint32(1+r.IntN(3)), 30+r.IntN(5)
			}
		}
		// One call of the channel stays in flight and gets its reply exactly while
		// the last takeover is being processed (its completion callback is a few
		// scheduling decisions old when the replacement's READY report starts):
		// "k = refreshes since the last response" is 0 or 1 afterwards, whichever
		// came first - never what it was plus one.
		ovl := r.IntN(3) == 0 && rounds <= 10 && p.Cfg.UMs < 100000
		if ovl {
			frag = append(frag, Op{K: OpPick, B: MBound, Keys: []int{k}})
		}
		for j := 0; j <= rounds; j++ {
			for c := 0; c < n; c++ {
				frag = append(frag, Op{K: OpPick, B: MBound, Keys: []int{k}, D: 1, E: 1})
			}
			wait := int(p.Cfg.UMs)<<uint(j) + []int{1, 1, 2, 5}[r.IntN(4)]
			if j == rounds {
				wait = int(p.Cfg.UMs)*[]int{1, 2, 3, 4, 5, 6, 8, 9, 16}[r.IntN(9)] + []int{-1, 0, 1}[r.IntN(3)]
				if r.IntN(4) == 0 {
					// well inside the (doubled) window under every reading: nothing may happen
					wait = int(p.Cfg.UMs) * (1 + r.IntN(3)) / 4
				}
			}
			frag = append(frag, Op{K: OpAdvance, E: wait})
			for c := 0; c < n; c++ {
				frag = append(frag, Op{K: OpDone, A: -1, B: OutClientDE})
			}
			if j < rounds {
				frag = append(frag, Op{K: OpConn, A: -1, B: ConnProgress})
				if ovl && j == rounds-1 {
					frag = append(frag, Op{K: OpDone, A: -5, B: OutOK, F: FlagOverlap, N: r.IntN(12)})
				}
				frag = append(frag, Op{K: OpConn, A: -1, B: ConnProgress})
				if r.IntN(4) > 0 {
					// the next calls start strictly after the takeover (a call started at that
					// very instant is "after the last response" or not, as one likes)
					frag = append(frag, Op{K: OpAdvance, E: 1})
				}
			}
		}
		at := 3 + r.IntN(len(p.Ops)-3)
		ops := append([]Op{}, p.Ops[:at]...)
		ops = append(ops, frag...)
		p.Ops = append(ops, p.Ops[at:]...)
	}
	// Directed fragment (double fault, serial plans that may shut live connections
	// down): a refresh is pending, the connection it is meant to replace reports
	// SHUTDOWN, the replacement never becomes READY; the pool is re-populated
	// (resolver update on the emptied pool), the new channel comes up, turns
	// unresponsive too and needs a refresh of its own. Progress and crash oracles.
	if p.LiveShutdown && !concurrent && p.Cfg.UMs > 0 && p.Cfg.UCalls > 0 && p.Cfg.UMs <= 1000 && r.IntN(3) == 0 && len(p.Ops) > 4 {
		n := int(p.Cfg.UCalls)
		if r.IntN(2) == 0 {
			p.Cfg.Min, p.Cfg.Max = 1, 1
		}
		p.Cfg.RR = false
		round := func(frag []Op) []Op {
			for c := 0; c < n; c++ {
				frag = append(frag, Op{K: OpPick, B: MPlain, D: 1, E: 1})
			}
			frag = append(frag, Op{K: OpAdvance, E: int(p.Cfg.UMs) + 2})
			for c := 0; c < n; c++ {
				frag = append(frag, Op{K: OpDone, A: -1, B: OutClientDE})
			}
			return frag
		}
		frag := []Op{{K: OpConn, A: 0, B: ConnProgress}, {K: OpConn, A: 0, B: ConnProgress}}
		for rep := 1 + r.IntN(2); rep > 0; rep-- {
			frag = round(frag)                                         // refresh pending: replacement created
			frag = append(frag, Op{K: OpConn, A: -2, B: ConnShutdown}) // the connection that served those calls
			switch r.IntN(3) {
			case 0: // the replacement stays idle
			case 1:
				frag = append(frag, Op{K: OpConn, A: -1, B: ConnProgress})
			case 2:
				frag = append(frag, Op{K: OpConn, A: -1, B: ConnProgress}, Op{K: OpConn, A: -1, B: ConnFail})
			}
			frag = append(frag, Op{K: OpResolver, A: r.IntN(3)}, Op{K: OpConn, A: -1, B: ConnProgress}, Op{K: OpConn, A: -1, B: ConnProgress})
		}
		frag = round(frag)
		frag = append(frag, Op{K: OpPick, B: MPlain}, Op{K: OpConn, A: -1, B: ConnProgress}, Op{K: OpConn, A: -1, B: ConnProgress}, Op{K: OpPick, B: MPlain})
		at := 1
		ops := append([]Op{}, p.Ops[:at]...)
		ops = append(ops, frag...)
		p.Ops = append(ops, p.Ops[at:]...)
	}
	// Directed fragment (serial, round-robin BIND x refresh x slow ClientConn): a
	// BIND call waits for a channel that is down and being refreshed; the
	// replacement comes up, and tearing the old connection down takes 250 ms inside
	// the takeover callback - the waiting call's poll timer fires meanwhile. When
	// the callback has returned the channel is READY: the call is handed it.
	if profile == "rr" && !concurrent && r.IntN(20) == 0 && len(p.Ops) > 4 {
		p.Cfg.RR = true
		p.SlowCC = true
		p.Cfg.Min, p.Cfg.Max = 2, 2
		p.Cfg.UMs, p.Cfg.UCalls = uint32(10*(1+r.IntN(4))), 1
		if p.Cfg.WM != 0 && p.Cfg.WM < 8 {
			p.Cfg.WM = 8
		}
		k := r.IntN(nKeys)
		frag := []Op{{K: OpConn, A: 0, B: ConnProgress}, {K: OpConn, A: 0, B: ConnProgress}, {K: OpConn, A: 1, B: ConnProgress}, {K: OpConn, A: 1, B: ConnProgress},
			{K: OpPick, B: MBind, Keys: []int{0}}, {K: OpDone, A: -1, B: OutOK, Keys: []int{k}},
			{K: OpPick, B: MBound, Keys: []int{k}, D: 1, E: 1},
			{K: OpAdvance, E: int(p.Cfg.UMs) + 2},
			{K: OpDone, A: -1, B: OutClientDE}, // refresh of the key's channel starts
			{K: OpConn, A: -2, B: ConnFail},    // its old connection drops: the channel is not READY
			{K: OpPick, B: MBind, Keys: []int{0}, D: 1, E: 5000}, {K: OpPick, B: MBind, Keys: []int{0}, D: 1, E: 5000}, // one of them waits for it
			{K: OpAdvance, E: 20 + r.IntN(100)},
			{K: OpConn, A: -1, B: ConnProgress}, {K: OpConn, A: -1, B: ConnProgress}, // the replacement takes over, slowly
			{K: OpAdvance, E: 10}}
		at := 1
		ops := append([]Op{}, p.Ops[:at]...)
		ops = append(ops, frag...)
		p.Ops = append(ops, p.Ops[at:]...)
	}
	// Directed fragment (serial, round-robin BIND x detection): BIND calls with a
	// deadline wait for a channel that is reconnecting; meanwhile an older call of
	// that channel gets its reply; the channel comes up, the waiting call is handed
	// it - it starts then, after that reply - and runs into its deadline after
	// the detection window: it counts.
	if profile == "rr" && !concurrent && r.IntN(20) == 0 && len(p.Ops) > 4 {
		p.Cfg.RR = true
		p.Cfg.Min, p.Cfg.Max = 2, 2
		p.Cfg.UMs, p.Cfg.UCalls = uint32(10*(1+r.IntN(4))), 1
		if p.Cfg.WM != 0 && p.Cfg.WM < 8 {
			p.Cfg.WM = 8
		}
		dl := int(p.Cfg.UMs) + 30
		frag := []Op{{K: OpConn, A: 0, B: ConnProgress}, {K: OpConn, A: 0, B: ConnProgress}, {K: OpConn, A: 1, B: ConnProgress}, {K: OpConn, A: 1, B: ConnProgress},
			{K: OpPick, B: MPlain}, {K: OpPick, B: MPlain}, // one call in flight on each channel
			{K: OpConn, A: 0, B: ConnFail}, {K: OpConn, A: 0, B: ConnProgress}, // the first channel reconnects
			{K: OpPick, B: MBind, Keys: []int{0}, D: 1, E: dl}, {K: OpPick, B: MBind, Keys: []int{0}, D: 1, E: dl}, // one of them waits for it
			{K: OpAdvance, E: 3},
			{K: OpDone, A: 0, B: OutOK}, {K: OpDone, A: 0, B: OutOK}, // the older calls get their replies
			{K: OpAdvance, E: 2},
			{K: OpConn, A: 0, B: ConnProgress}, // READY: the waiting call is placed now
			{K: OpAdvance, E: dl},
			{K: OpDone, A: -1, B: OutClientDE, Keys: []int{1}}, {K: OpDone, A: -1, B: OutClientDE, Keys: []int{2}}}
		at := 1
		ops := append([]Op{}, p.Ops[:at]...)
		ops = append(ops, frag...)
		p.Ops = append(ops, p.Ops[at:]...)
	}
	// Directed fragment (serial, round-robin BIND): a channel is being refreshed,
	// the connection to be replaced reports SHUTDOWN (a live connection shut down
	// under the pool), then the replacement comes up and takes the channel over:
	// the pool is what it was, and the BIND calls that follow must walk it in
	// creation order, one turn per channel.
	if (profile == "rr" && r.IntN(25) == 0 || profile == "refresh" && r.IntN(60) == 0) && !concurrent && len(p.Ops) > 4 && p.Cfg.UMs <= 1000 && !extremeWin {
		// (not with detection windows of hours to weeks: a round-robin BIND call
		// that waits polls every 100 ms of the simulated time that passes there)
		p.Cfg.RR = true
		p.LiveShutdown = true
		if p.Cfg.UMs == 0 || p.Cfg.UCalls == 0 {
			p.Cfg.UMs, p.Cfg.UCalls = uint32(10*(1+r.IntN(5))), uint32(1+r.IntN(2))
		}
		size := 1 + r.IntN(4) // (a pool of one too: every channel of the pool has been through it then)
		p.Cfg.Min, p.Cfg.Max = uint32(size), uint32(size)
		k := r.IntN(nKeys)
		n := int(p.Cfg.UCalls)
		var frag []Op
		for c := 0; c < size; c++ {
			frag = append(frag, Op{K: OpConn, A: c, B: ConnProgress}, Op{K: OpConn, A: c, B: ConnProgress})
		}
		for c := r.IntN(size); c >= 0; c-- { // the key's home is any of the channels
			frag = append(frag, Op{K: OpPick, B: MBind, Keys: []int{k}}, Op{K: OpDone, A: -1, B: OutOK, Keys: []int{k}})
		}
		for c := 0; c < n; c++ {
			frag = append(frag, Op{K: OpPick, B: MBound, Keys: []int{k}, D: 1, E: 1})
		}
		frag = append(frag, Op{K: OpAdvance, E: int(p.Cfg.UMs) + 2})
		for c := 0; c < n; c++ {
			frag = append(frag, Op{K: OpDone, A: -1, B: OutClientDE})
		}
		frag = append(frag, Op{K: OpConn, A: -2, B: ConnShutdown}, // the connection that served those calls
			Op{K: OpConn, A: -1, B: ConnProgress}, Op{K: OpConn, A: -1, B: ConnProgress}) // its replacement comes up
		for c := 0; c < 2*size+2; c++ {
			frag = append(frag, Op{K: OpPick, B: MBind, Keys: []int{0}}, Op{K: OpDone, A: -1, B: OutOK, Keys: []int{(k + 1 + c) % nKeys}})
		}
		at := 1
		ops := append([]Op{}, p.Ops[:at]...)
		ops = append(ops, frag...)
		p.Ops = append(ops, p.Ops[at:]...)
	}
	// Directed fragment: a configuration without a stream watermark is only
	// distinguishable from its default (100) by about a hundred calls in flight
	// on one channel: a pool of one, filled to just below / at / above 100, then a
	// few more picks and the state reports of whatever connection growth created.
	if profile == "config" && !concurrent && p.Cfg.WM == 0 && p.Cfg.Min <= 1 && !p.Cfg.RR && r.IntN(6) == 0 && len(p.Ops) > 4 {
		frag := []Op{{K: OpConn, A: 0, B: ConnProgress}, {K: OpConn, A: 0, B: ConnProgress}}
		n := 97 + r.IntN(5)
		for c := 0; c < n; c++ {
			frag = append(frag, Op{K: OpPick, B: MPlain})
		}
		for c := 0; c < 3; c++ {
			frag = append(frag, Op{K: OpPick, B: MPlain}, Op{K: OpConn, A: -1, B: ConnProgress}, Op{K: OpConn, A: -1, B: ConnProgress})
		}
		at := 1 + r.IntN(3)
		ops := append([]Op{}, p.Ops[:at]...)
		ops = append(ops, frag...)
		p.Ops = append(ops, p.Ops[at:]...)
	}
	// Directed fragment (scale): more than two thousand streams on ONE channel
	// (calls for a key bound there go home whatever the load) while the other
	// channel is idle; then unkeyed calls: the idle channel is the least loaded
	// one at 2047, 2048 and 2100 streams as at 3.
	if (profile == "load" || profile == "affinity") && !concurrent && !p.Cfg.RR && !p.Cfg.NilCfg && r.IntN(400) == 0 && !kern.RaceBuild && p.Cfg.Locator < nGoodLocators && len(p.Ops) > 4 {
		p.Cfg.NilPool = false
		p.Cfg.Min, p.Cfg.Max, p.Cfg.WM = 2, 2, []uint32{0, 100, 3000}[r.IntN(3)]
		p.Cfg.UCalls, p.Cfg.UMs = 0, 0
		k := r.IntN(nKeys)
		frag := []Op{{K: OpConn, A: 0, B: ConnProgress}, {K: OpConn, A: 0, B: ConnProgress}, {K: OpConn, A: 1, B: ConnProgress}, {K: OpConn, A: 1, B: ConnProgress},
			{K: OpPick, B: MBind, Keys: []int{0}}, {K: OpDone, A: -1, B: OutOK, Keys: []int{k}}}
		n := 2040 + r.IntN(70)
		for c := 0; c < n; c++ {
			frag = append(frag, Op{K: OpPick, B: MBound, Keys: []int{k}})
			if c >= 2044 && c <= 2050 {
				frag = append(frag, Op{K: OpPick, B: MPlain})
			}
		}
		frag = append(frag, Op{K: OpPick, B: MPlain}, Op{K: OpPick, B: MPlain}, Op{K: OpDone, A: -1, B: OutOK}, Op{K: OpPick, B: MPlain})
		p.MassKeys = true
		at := 1
		ops := append([]Op{}, p.Ops[:at]...)
		ops = append(ops, frag...)
		p.Ops = append(ops, p.Ops[at:]...)
	}
	// Directed fragment (scale x refresh x live SHUTDOWN): more than 8192 keys are
	// unbound, one call each, while the channel of another bound key is out of the
	// pool (being refreshed, its old connection shut down under the pool); then the
	// replacement takes over: the key was never unbound, its calls go there.
	if (profile == "affinity" || profile == "refresh") && !concurrent && !p.Cfg.RR && (r.IntN(1200) == 0 || os.Getenv("SIM_FORCE_MASS") == "4") && !kern.RaceBuild && !extremeWin && (p.Cfg.Locator == 2 || p.Cfg.Locator == 3) && len(p.Ops) > 4 {
		p.Cfg.Min, p.Cfg.Max = 2, 2
		p.LiveShutdown = true
		if p.Cfg.UMs == 0 || p.Cfg.UCalls == 0 || p.Cfg.UMs > 1000 {
			p.Cfg.UMs, p.Cfg.UCalls = uint32(10*(1+r.IntN(5))), uint32(1+r.IntN(2))
		}
		if p.Cfg.WM != 0 && p.Cfg.WM < 8 {
			p.Cfg.WM = 8
		}
		n := int(p.Cfg.UCalls)
		victim := r.IntN(nKeys)
		frag := []Op{{K: OpConn, A: 0, B: ConnProgress}, {K: OpConn, A: 0, B: ConnProgress}, {K: OpConn, A: 1, B: ConnProgress}, {K: OpConn, A: 1, B: ConnProgress},
			{K: OpPick, B: MBind, Keys: []int{0}}, {K: OpDone, A: -1, B: OutOK, Keys: []int{victim}},
			{K: OpPick, B: MBound, Keys: []int{victim}}} // stays in flight: marks the victim's channel (A: -3 below)
		for c := 0; c < n; c++ {
			frag = append(frag, Op{K: OpPick, B: MBound, Keys: []int{victim}, D: 1, E: 1}) // held on the victim's channel: the binds below go to the other one
		}
		total := 8200 + r.IntN(300)
		base := 3000
		var all []int
		for len(all) < total {
			m := 500 + r.IntN(300)
			ks := make([]int, m)
			for j := range ks {
				ks[j] = base + j
			}
			base += m
			all = append(all, ks...)
			frag = append(frag, Op{K: OpPick, B: MBind, Keys: []int{0}}, Op{K: OpDone, A: -1, B: OutOK, Keys: ks})
		}
		frag = append(frag, Op{K: OpAdvance, E: int(p.Cfg.UMs) + 2})
		for c := 0; c < n; c++ {
			frag = append(frag, Op{K: OpDone, A: -1, B: OutClientDE}) // refresh of the victim's channel starts
		}
		frag = append(frag, Op{K: OpConn, A: -3, B: ConnShutdown}) // its old connection is shut down under the pool
		for _, k := range all {
			frag = append(frag, Op{K: OpPick, B: MUnbind, Keys: []int{k}}, Op{K: OpDone, A: -1, B: OutOK})
		}
		frag = append(frag, Op{K: OpConn, A: -1, B: ConnProgress}, Op{K: OpConn, A: -1, B: ConnProgress}, // the replacement takes over
			Op{K: OpPick, B: MBound, Keys: []int{victim}}, Op{K: OpPick, B: MBound, Keys: []int{victim}})
		p.MassKeys = true
		at := 1
		ops := append([]Op{}, p.Ops[:at]...)
		ops = append(ops, frag...)
		p.Ops = append(ops, p.Ops[at:]...)
	}
	// Directed fragment (scale): hundreds of calls in flight. Defaults (no pool
	// section: at most 4 channels, watermark 100) or a small pool with the
	// defaulted watermark: every call is held, each channel that growth adds is
	// brought up at once, up to 450 calls - beyond watermark x maxSize, where
	// calls must spread over the channels and no further channel may appear.
	if (profile == "load" || profile == "config" || profile == "growth") && !concurrent && !p.Cfg.RR && !p.Cfg.NilCfg && r.IntN(60) == 0 && len(p.Ops) > 4 {
		switch r.IntN(3) {
		case 0:
			p.Cfg.NilPool = true // defaults: 1 / 4 / 100
		case 1:
			p.Cfg.NilPool = false
			p.Cfg.Min, p.Cfg.Max, p.Cfg.WM = 2, 2, 0
		case 2:
			p.Cfg.NilPool = false
			p.Cfg.Min, p.Cfg.Max, p.Cfg.WM = 0, 3, 100
		}
		p.Cfg.UCalls, p.Cfg.UMs = 0, 0
		frag := []Op{}
		for c := 0; c < 3; c++ {
			frag = append(frag, Op{K: OpConn, A: c, B: ConnProgress}, Op{K: OpConn, A: c, B: ConnProgress})
		}
		n := 210 + r.IntN(240)
		for c := 0; c < n; c++ {
			frag = append(frag, Op{K: OpPick, B: MPlain})
			if c%20 == 19 || c%100 > 97 || c%100 < 3 {
				// whatever growth created comes up
				frag = append(frag, Op{K: OpConn, A: -1, B: ConnProgress}, Op{K: OpConn, A: -1, B: ConnProgress})
			}
		}
		for c := 0; c < 10; c++ {
			frag = append(frag, Op{K: OpDone, A: r.IntN(n), B: OutOK}, Op{K: OpPick, B: MPlain})
		}
		at := 1
		ops := append([]Op{}, p.Ops[:at]...)
		ops = append(ops, frag...)
		p.Ops = append(ops, p.Ops[at:]...)
	}
	// Directed fragment: a round-robin BIND call waits for its channel while that
	// channel flaps between CONNECTING, TRANSIENT_FAILURE and IDLE fifty times and
	// more (every report wakes the waiting call up): it keeps waiting quietly and
	// returns as soon as the channel is READY or its context ends.
	if profile == "rr" && !concurrent && r.IntN(20) == 0 && len(p.Ops) > 4 {
		p.Cfg.RR = true
		p.Cfg.Min, p.Cfg.Max = 2, 2
		frag := []Op{{K: OpConn, A: 0, B: ConnProgress}, {K: OpConn, A: 0, B: ConnProgress}, {K: OpConn, A: 1, B: ConnProgress},
			{K: OpPick, B: MBind, Keys: []int{0}}, {K: OpPick, B: MBind, Keys: []int{1}, D: 1, E: 5000}}
		for c := 16 + r.IntN(16); c > 0; c-- {
			// CONNECTING -> TRANSIENT_FAILURE -> IDLE -> CONNECTING: never READY
			frag = append(frag, Op{K: OpConn, A: 1, B: ConnFail}, Op{K: OpConn, A: 1, B: ConnFail})
			if r.IntN(3) == 0 {
				frag = append(frag, Op{K: OpConn, A: 1, B: ConnDuplicate})
			}
			frag = append(frag, Op{K: OpConn, A: 1, B: ConnProgress})
		}
		frag = append(frag, Op{K: OpAdvance, E: 150}, Op{K: OpAdvance, E: 150})
		if r.IntN(2) == 0 {
			frag = append(frag, Op{K: OpConn, A: 1, B: ConnProgress}, Op{K: OpConn, A: 1, B: ConnProgress}, Op{K: OpConn, A: 1, B: ConnProgress})
		}
		at := 1
		ops := append([]Op{}, p.Ops[:at]...)
		ops = append(ops, frag...)
		p.Ops = append(ops, p.Ops[at:]...)
	}
	// Directed fragment (scale): one channel collects more than a thousand bound
	// keys (two BIND replies with a repeated key field), then a second channel
	// comes up and unkeyed calls are held: least-loaded placement must not depend
	// on how many keys a channel holds, however many.
	if (profile == "load" && r.IntN(12) == 0 || profile == "affinity" && r.IntN(60) == 0) && !concurrent && (p.Cfg.Locator == 2 || p.Cfg.Locator == 3) && !p.Cfg.RR && len(p.Ops) > 4 {
		if p.Cfg.Min < 2 {
			p.Cfg.Min = 2
		}
		if p.Cfg.Max != 0 && p.Cfg.Max < p.Cfg.Min {
			p.Cfg.Max = p.Cfg.Min
		}
		frag := []Op{{K: OpConn, A: 0, B: ConnProgress}, {K: OpConn, A: 0, B: ConnProgress}}
		base := 200
		for rep := 0; rep < 2; rep++ {
			n := 520 + r.IntN(200)
			ks := make([]int, n)
			for j := range ks {
				ks[j] = base + j
			}
			base += n
			frag = append(frag, Op{K: OpPick, B: MBind, Keys: []int{0}}, Op{K: OpDone, A: -1, B: OutOK, Keys: ks})
		}
		frag = append(frag, Op{K: OpConn, A: 1, B: ConnProgress}, Op{K: OpConn, A: 1, B: ConnProgress})
		for c := 0; c < 6; c++ {
			frag = append(frag, Op{K: OpPick, B: MPlain})
		}
		at := 1 + r.IntN(2)
		ops := append([]Op{}, p.Ops[:at]...)
		ops = append(ops, frag...)
		p.Ops = append(ops, p.Ops[at:]...)
	}
	// Directed fragment (scale x refresh x overlap): a channel that holds 50-57
	// thousand bound keys is refreshed; five keyed calls start a few scheduling
	// decisions before the replacement's READY report and run beside it. The
	// channel is READY before, during and after the takeover: they go there.
	if (profile == "refresh" || profile == "affinity") && !concurrent && !p.Cfg.RR && (r.IntN(300) == 0 || os.Getenv("SIM_FORCE_MASS") == "3") && !kern.RaceBuild && !extremeWin && (p.Cfg.Locator == 2 || p.Cfg.Locator == 3) && len(p.Ops) > 4 {
		p.Cfg.Min, p.Cfg.Max = 2, 2
		if p.Cfg.UMs == 0 || p.Cfg.UCalls == 0 || p.Cfg.UMs > 1000 {
			p.Cfg.UMs, p.Cfg.UCalls = uint32(10*(1+r.IntN(5))), uint32(1+r.IntN(2))
		}
		if p.Cfg.WM != 0 && p.Cfg.WM < 8 {
			p.Cfg.WM = 8
		}
		n := int(p.Cfg.UCalls)
		frag := []Op{{K: OpConn, A: 0, B: ConnProgress}, {K: OpConn, A: 0, B: ConnProgress}, {K: OpConn, A: 1, B: ConnProgress}, {K: OpConn, A: 1, B: ConnProgress}}
		total := 50000 + r.IntN(7000)
		base := 20000
		var all []int
		for len(all) < total {
			m := 600 + r.IntN(300)
			ks := make([]int, m)
			for j := range ks {
				ks[j] = base + j
			}
			base += m
			all = append(all, ks...)
			frag = append(frag, Op{K: OpPick, B: MBind, Keys: []int{0}}, Op{K: OpDone, A: -1, B: OutOK, Keys: ks})
		}
		km := all[len(all)-1]
		for c := 0; c < n; c++ {
			frag = append(frag, Op{K: OpPick, B: MBound, Keys: []int{km}, D: 1, E: 1})
		}
		frag = append(frag, Op{K: OpAdvance, E: int(p.Cfg.UMs) + 2})
		for c := 0; c < n; c++ {
			frag = append(frag, Op{K: OpDone, A: -1, B: OutClientDE})
		}
		frag = append(frag, Op{K: OpConn, A: -1, B: ConnProgress})
		for c := 0; c < 5; c++ {
			// (a keyed pick reaches the balancer's key table within a handful of
			// scheduling decisions: hardly any head start, or it is over too early)
			frag = append(frag, Op{K: OpPick, B: MBound, Keys: []int{all[r.IntN(len(all))]}, F: FlagOverlap, N: r.IntN(3)})
		}
		frag = append(frag, Op{K: OpConn, A: -1, B: ConnProgress},
			Op{K: OpPick, B: MBound, Keys: []int{all[r.IntN(len(all))]}}, Op{K: OpPick, B: MBound, Keys: []int{km}})
		p.MassKeys = true
		at := 1
		ops := append([]Op{}, p.Ops[:at]...)
		ops = append(ops, frag...)
		p.Ops = append(ops, p.Ops[at:]...)
	}
	// Directed fragment (affinity x refresh x live SHUTDOWN): a key is unbound
	// (through a stand-in) while its channel is out of the pool - being refreshed,
	// old connection shut down; the replacement then takes over. The key stays
	// unbound: calls that carry it go to the least loaded channel.
	if (profile == "affinity" || profile == "refresh" || profile == "fallback") && !concurrent && !p.Cfg.RR && r.IntN(40) == 0 && !extremeWin && len(p.Ops) > 4 {
		p.Cfg.Min, p.Cfg.Max, p.Cfg.Fallback = 2, 2, true
		p.LiveShutdown = true
		if p.Cfg.UMs == 0 || p.Cfg.UCalls == 0 || p.Cfg.UMs > 1000 {
			p.Cfg.UMs, p.Cfg.UCalls = uint32(10*(1+r.IntN(5))), uint32(1+r.IntN(2))
		}
		if p.Cfg.WM != 0 && p.Cfg.WM < 8 {
			p.Cfg.WM = 8
		}
		n := int(p.Cfg.UCalls)
		k := r.IntN(nKeys)
		frag := []Op{{K: OpConn, A: 0, B: ConnProgress}, {K: OpConn, A: 0, B: ConnProgress}, {K: OpConn, A: 1, B: ConnProgress}, {K: OpConn, A: 1, B: ConnProgress},
			{K: OpPick, B: MBind, Keys: []int{0}}, {K: OpDone, A: -1, B: OutOK, Keys: []int{k}},
			{K: OpPick, B: MBound, Keys: []int{k}}} // stays in flight on the key's channel
		for c := 0; c < n; c++ {
			frag = append(frag, Op{K: OpPick, B: MBound, Keys: []int{k}, D: 1, E: 1})
		}
		frag = append(frag, Op{K: OpAdvance, E: int(p.Cfg.UMs) + 2})
		for c := 0; c < n; c++ {
			frag = append(frag, Op{K: OpDone, A: -1, B: OutClientDE})
		}
		frag = append(frag, Op{K: OpConn, A: -3, B: ConnShutdown},
			Op{K: OpPick, B: MUnbind, Keys: []int{k}}, Op{K: OpDone, A: -1, B: OutOK},
			Op{K: OpConn, A: -1, B: ConnProgress}, Op{K: OpConn, A: -1, B: ConnProgress},
			Op{K: OpPick, B: MBound, Keys: []int{k}}, Op{K: OpPick, B: MBound, Keys: []int{k}}, Op{K: OpPick, B: MPlain})
		at := 1
		ops := append([]Op{}, p.Ops[:at]...)
		ops = append(ops, frag...)
		p.Ops = append(ops, p.Ops[at:]...)
	}
	// Directed fragment (fallback x consecutive refreshes): the only READY channel
	// besides a key's home has been refreshed once without any response since and
	// is being refreshed again (still READY, still serving); then the home goes
	// down: calls for the key need that channel as their stand-in.
	if profile == "fallback" && !concurrent && !p.Cfg.RR && r.IntN(15) == 0 && len(p.Ops) > 4 {
		p.Cfg.Fallback = true
		p.Cfg.Min, p.Cfg.Max = 2, 2
		if p.Cfg.UMs == 0 || p.Cfg.UCalls == 0 || p.Cfg.UMs > 1000 {
			p.Cfg.UMs, p.Cfg.UCalls = uint32(10*(1+r.IntN(5))), uint32(1+r.IntN(2))
		}
		if p.Cfg.WM != 0 && p.Cfg.WM < 8 {
			p.Cfg.WM = 8
		}
		n := int(p.Cfg.UCalls)
		k1, k2 := 0, 1
		frag := []Op{{K: OpConn, A: 0, B: ConnProgress}, {K: OpConn, A: 0, B: ConnProgress}, {K: OpConn, A: 1, B: ConnProgress}, {K: OpConn, A: 1, B: ConnProgress},
			{K: OpPick, B: MBind, Keys: []int{0}}, {K: OpDone, A: -1, B: OutOK, Keys: []int{k1}},
			{K: OpPick, B: MBound, Keys: []int{k1}}, // stays in flight: the next key is bound to the other channel
			{K: OpPick, B: MBind, Keys: []int{0}}, {K: OpDone, A: -1, B: OutOK, Keys: []int{k2}}}
		rounds := 2 + r.IntN(2)
		for j := 0; j < rounds; j++ {
			for c := 0; c < n; c++ {
				frag = append(frag, Op{K: OpPick, B: MBound, Keys: []int{k2}, D: 1, E: 1})
			}
			frag = append(frag, Op{K: OpAdvance, E: int(p.Cfg.UMs)<<uint(j) + 2})
			for c := 0; c < n; c++ {
				frag = append(frag, Op{K: OpDone, A: -1, B: OutClientDE})
			}
			if j < rounds-1 {
				frag = append(frag, Op{K: OpConn, A: -1, B: ConnProgress}, Op{K: OpConn, A: -1, B: ConnProgress}, Op{K: OpAdvance, E: 1})
			} else if r.IntN(2) == 0 {
				frag = append(frag, Op{K: OpConn, A: -1, B: ConnProgress}) // the last replacement is connecting
			}
		}
		frag = append(frag, Op{K: OpConn, A: -3, B: ConnFail}, // the first key's home goes down
			Op{K: OpPick, B: MBound, Keys: []int{k1}}, Op{K: OpPick, B: MBound, Keys: []int{k1}})
		at := 1
		ops := append([]Op{}, p.Ops[:at]...)
		ops = append(ops, frag...)
		p.Ops = append(ops, p.Ops[at:]...)
	}
	// Directed fragment (fallback x affinity x refresh): a key is unbound through
	// its stand-in while its home is down; later the stand-in's connection is
	// refreshed (every READY channel is, their calls all run into the deadline);
	// the key is bound again and its new home goes down too: calls for it need a
	// stand-in again, and there are READY channels. Steps are left out at random.
	if profile == "fallback" && !concurrent && !p.Cfg.RR && r.IntN(12) == 0 && len(p.Ops) > 4 {
		p.Cfg.Fallback = true
		p.Cfg.Min, p.Cfg.Max = 3, 3
		if p.Cfg.UMs == 0 || p.Cfg.UCalls == 0 || p.Cfg.UMs > 1000 {
			p.Cfg.UMs, p.Cfg.UCalls = uint32(10*(1+r.IntN(5))), uint32(1+r.IntN(2))
		}
		if p.Cfg.WM != 0 && p.Cfg.WM < 8 {
			p.Cfg.WM = 8
		}
		k := r.IntN(nKeys)
		n := int(p.Cfg.UCalls)
		opt := func() bool { return r.IntN(5) > 0 }
		var frag []Op
		for c := 0; c < 3; c++ {
			frag = append(frag, Op{K: OpConn, A: c, B: ConnProgress}, Op{K: OpConn, A: c, B: ConnProgress})
		}
		frag = append(frag, Op{K: OpPick, B: MBind, Keys: []int{0}}, Op{K: OpDone, A: -1, B: OutOK, Keys: []int{k}},
			Op{K: OpConn, A: -4, B: ConnFail}) // the key's home goes down
		if opt() {
			frag = append(frag, Op{K: OpPick, B: MBound, Keys: []int{k}}, Op{K: OpDone, A: -1, B: OutOK})
		}
		if opt() {
			frag = append(frag, Op{K: OpPick, B: MUnbind, Keys: []int{k}}, Op{K: OpDone, A: -1, B: OutOK})
		}
		if opt() {
			// both READY channels turn unresponsive and are refreshed
			for c := 0; c < 2*n; c++ {
				frag = append(frag, Op{K: OpPick, B: MPlain, D: 1, E: 1})
			}
			frag = append(frag, Op{K: OpAdvance, E: int(p.Cfg.UMs) + 2})
			for c := 0; c < 2*n; c++ {
				frag = append(frag, Op{K: OpDone, A: -1, B: OutClientDE})
			}
			for c := 3; c < 5; c++ {
				frag = append(frag, Op{K: OpConn, A: c, B: ConnProgress}, Op{K: OpConn, A: c, B: ConnProgress})
			}
		}
		if opt() {
			frag = append(frag, Op{K: OpConn, A: 0, B: ConnProgress}, Op{K: OpConn, A: 0, B: ConnProgress},
				Op{K: OpConn, A: 1, B: ConnProgress}, Op{K: OpConn, A: 2, B: ConnProgress}) // whichever was down comes back
		}
		frag = append(frag, Op{K: OpPick, B: MBind, Keys: []int{0}}, Op{K: OpDone, A: -1, B: OutOK, Keys: []int{k}},
			Op{K: OpConn, A: -4, B: ConnFail}, // the new home goes down
			Op{K: OpPick, B: MBound, Keys: []int{k}}, Op{K: OpPick, B: MBound, Keys: []int{k}})
		at := 1
		ops := append([]Op{}, p.Ops[:at]...)
		ops = append(ops, frag...)
		p.Ops = append(ops, p.Ops[at:]...)
	}
	// Directed fragment (scale): more than four thousand keys live on stand-ins
	// at once. A victim key is bound, then thousands more (BIND replies with a
	// repeated key field); their home goes down (or is shut down under the pool
	// where the plan allows that), the victim gets a stand-in that keeps a call
	// in flight (so it is not the least busy channel afterwards), every other key
	// is called once, then the victim again: same stand-in. Whatever a library
	// does once a table holds thousands of entries happens here.
	if ((profile == "fallback" && r.IntN(800) == 0 || profile == "load" && r.IntN(3000) == 0) || (profile == "fallback" || profile == "load") && os.Getenv("SIM_FORCE_MASS") != "") && !kern.RaceBuild && !concurrent && (p.Cfg.Locator == 2 || p.Cfg.Locator == 3) && !p.Cfg.RR && len(p.Ops) > 4 {
		p.Cfg.Fallback = true
		if p.Cfg.Min < 3 {
			p.Cfg.Min = 3
		}
		if p.Cfg.Max != 0 && p.Cfg.Max < p.Cfg.Min {
			p.Cfg.Max = p.Cfg.Min
		}
		if p.Cfg.WM != 0 && p.Cfg.WM < 4 {
			p.Cfg.WM = 4
		}
		frag := []Op{}
		for c := 0; c < 3; c++ {
			frag = append(frag, Op{K: OpConn, A: c, B: ConnProgress}, Op{K: OpConn, A: c, B: ConnProgress})
		}
		victim := r.IntN(nKeys)
		frag = append(frag, Op{K: OpPick, B: MBind, Keys: []int{0}}, Op{K: OpDone, A: -1, B: OutOK, Keys: []int{victim}})
		total := 4100 + r.IntN(300)
		if r.IntN(4) == 0 {
			total = 8200 + r.IntN(200)
		}
		base := 3000
		var all []int
		for len(all) < total {
			n := 500 + r.IntN(300)
			ks := make([]int, n)
			for j := range ks {
				ks[j] = base + j
			}
			base += n
			all = append(all, ks...)
			frag = append(frag, Op{K: OpPick, B: MBind, Keys: []int{0}}, Op{K: OpDone, A: -1, B: OutOK, Keys: ks})
		}
		down := Op{K: OpConn, A: -4, B: ConnFail}
		if r.IntN(2) == 0 || os.Getenv("SIM_FORCE_MASS") == "2" {
			// the home is shut down under the pool (runs judged for crashes, progress
			// and the clauses stated over observed states only, from there on)
			p.LiveShutdown = true
			down.B = ConnShutdown
		}
		// the victim's home first (it may be the same channel), then the home of the rest
		frag = append(frag, down, down, Op{K: OpPick, B: MBound, Keys: []int{victim}})
		for _, k := range all {
			frag = append(frag, Op{K: OpPick, B: MBound, Keys: []int{k}}, Op{K: OpDone, A: -1, B: OutOK})
		}
		frag = append(frag, Op{K: OpPick, B: MBound, Keys: []int{victim}}, Op{K: OpPick, B: MBound, Keys: []int{all[0]}}, Op{K: OpPick, B: MBound, Keys: []int{victim}})
		p.MassKeys = true
		at := 1
		ops := append([]Op{}, p.Ops[:at]...)
		ops = append(ops, frag...)
		p.Ops = append(ops, p.Ops[at:]...)
	}
	// Directed fragment (scale): a pool that grows far beyond the usual handful
	// of channels - maxSize 33-70, watermark 1: every held call saturates the
	// pool, one channel is added, comes up, takes the next call. Size bound and
	// least-loaded placement must hold at 9, 17, 33, 65 channels as at 3.
	if profile == "growth" && !concurrent && !p.Cfg.RR && r.IntN(40) == 0 && len(p.Ops) > 4 {
		p.Cfg.Min, p.Cfg.WM = 1, 1
		p.Cfg.Max = uint32(33 + r.IntN(38))
		if r.IntN(8) == 0 {
			p.Cfg.Max = uint32(257 + r.IntN(40)) // beyond a byte-sized index / a 256-entry window
		}
		frag := []Op{{K: OpConn, A: 0, B: ConnProgress}, {K: OpConn, A: 0, B: ConnProgress}}
		n := 2*int(p.Cfg.Max) + 2 // every other call finds the pool saturated, adds a channel and waits
		if r.IntN(2) == 0 {
			n -= 24 // stop a dozen channels short of maxSize: growth stays possible
		}
		if r.IntN(16) == 0 {
			// more than 512 channels, all there from the start (minSize = maxSize): each
			// comes up, then one held call per channel and a few more - every one of
			// them belongs on a channel without a stream as long as there is one
			size := 513 + r.IntN(120)
			p.Cfg.Min, p.Cfg.Max = uint32(size), uint32(size)
			frag = frag[:0]
			for c := 0; c < size; c++ {
				frag = append(frag, Op{K: OpConn, A: c, B: ConnProgress}, Op{K: OpConn, A: c, B: ConnProgress})
			}
			for c := 0; c < size+3; c++ {
				frag = append(frag, Op{K: OpPick, B: MPlain})
			}
			n = 0
		}
		for c := 0; c < n; c++ {
			// held call; when it saturates the pool it is told to wait and a channel is
			// created: bring that one up and place one call there
			frag = append(frag, Op{K: OpPick, B: MPlain}, Op{K: OpConn, A: -1, B: ConnProgress}, Op{K: OpConn, A: -1, B: ConnProgress})
		}
		if n == 0 {
			n = int(p.Cfg.Max)
		}
		for c := 0; c < 12; c++ {
			// one call completes somewhere in the pool: the next one belongs there
			frag = append(frag, Op{K: OpDone, A: r.IntN(n), B: OutOK}, Op{K: OpPick, B: MPlain})
		}
		at := 1 + r.IntN(2)
		ops := append([]Op{}, p.Ops[:at]...)
		ops = append(ops, frag...)
		p.Ops = append(ops, p.Ops[at:]...)
	}
	// Directed fragment: a key's home fails twice with a recovery in between; the
	// first stand-in keeps a call in flight, so the second outage picks another
	// stand-in; then the FIRST stand-in fails. The key must stay on the second.
	if profile == "fallback" && !concurrent && r.IntN(6) == 0 && len(p.Ops) > 4 {
		if p.Cfg.Min < 4 {
			p.Cfg.Min = 4
		}
		if p.Cfg.Max != 0 && p.Cfg.Max < p.Cfg.Min {
			p.Cfg.Max = p.Cfg.Min
		}
		k := r.IntN(nKeys)
		frag := []Op{}
		for c := 0; c < 4; c++ {
			frag = append(frag, Op{K: OpConn, A: c, B: ConnProgress}, Op{K: OpConn, A: c, B: ConnProgress})
		}
		frag = append(frag,
			Op{K: OpPick, B: MBind, Keys: []int{k}}, Op{K: OpDone, A: -1, B: OutOK, Keys: []int{k}},
			Op{K: OpConn, A: -4, B: ConnFail},
			Op{K: OpPick, B: MBound, Keys: []int{k}},
			Op{K: OpConn, A: -4, B: ConnProgress}, Op{K: OpConn, A: -4, B: ConnProgress},
			Op{K: OpConn, A: -4, B: ConnFail},
			Op{K: OpPick, B: MBound, Keys: []int{k}},
			Op{K: OpConn, A: -3, B: ConnFail},
			Op{K: OpPick, B: MBound, Keys: []int{k}},
			Op{K: OpPick, B: MBound, Keys: []int{k}, C: r.IntN(2)},
		)
		at := 1 + r.IntN(2)
		ops := append([]Op{}, p.Ops[:at]...)
		ops = append(ops, frag...)
		p.Ops = append(ops, p.Ops[at:]...)
	}
	// Directed concurrent fragment: two BINDs for the same key in flight on
	// different channels whose completion callbacks overlap, then keyed calls.
	if concurrent && (profile == "affinity" || profile == "fallback" || profile == "chaos") && r.IntN(3) == 0 && len(p.Ops) > 4 {
		k := r.IntN(nKeys)
		st := func() int { return r.IntN(5) }
		frag := []Op{
			{K: OpConn, A: 0, B: ConnProgress}, {K: OpConn, A: 0, B: ConnProgress},
			{K: OpConn, A: 1, B: ConnProgress}, {K: OpConn, A: 1, B: ConnProgress},
			{K: OpSteps, A: 60},
			{K: OpPick, B: MBind, Keys: []int{k}, N: 30},
			{K: OpPick, B: MBind, Keys: []int{k}, N: 30},
			{K: OpDone, A: -1, B: OutOK, Keys: []int{k}, N: st()},
			{K: OpDone, A: -1, B: OutOK, Keys: []int{k}, N: st()},
			{K: OpPick, B: MBound, Keys: []int{k}, N: st()},
			{K: OpSteps, A: 40},
			{K: OpPick, B: MBound, Keys: []int{k}, N: 20},
			{K: OpPick, B: MBound, Keys: []int{k}, N: 20},
		}
		at := 3 + r.IntN(len(p.Ops)-3)
		ops := append([]Op{}, p.Ops[:at]...)
		ops = append(ops, frag...)
		p.Ops = append(ops, p.Ops[at:]...)
	}
	// Directed concurrent fragment: several calls of one channel run into their
	// deadline, the detection window passes, and their completion callbacks
	// overlap each other, a resolver update with another address list and the
	// state reports of the replacement: the windows inside refresh().
	if concurrent && (profile == "refresh" || profile == "resolver" || profile == "chaos") && p.Cfg.UMs > 0 && p.Cfg.UCalls > 0 && r.IntN(3) == 0 && len(p.Ops) > 4 {
		k := r.IntN(nKeys)
		st := func() int { return r.IntN(6) }
		n := int(p.Cfg.UCalls) + 1 + r.IntN(2)
		frag := []Op{
			{K: OpConn, A: 0, B: ConnProgress}, {K: OpConn, A: 0, B: ConnProgress},
			{K: OpConn, A: 1, B: ConnProgress}, {K: OpConn, A: 1, B: ConnProgress},
			{K: OpSteps, A: 60},
			{K: OpPick, B: MBind, Keys: []int{k}, N: 30},
			{K: OpDone, A: -1, B: OutOK, Keys: []int{k}, N: 30},
		}
		for c := 0; c < n; c++ {
			frag = append(frag, Op{K: OpPick, B: MBound, Keys: []int{k}, D: 1, E: 1, N: 20})
		}
		frag = append(frag, Op{K: OpSteps, A: 40}, Op{K: OpAdvance, E: int(p.Cfg.UMs) + 2})
		tail := []Op{}
		for c := 0; c < n; c++ {
			tail = append(tail, Op{K: OpDone, A: -1, B: OutClientDE, N: st()})
		}
		if r.IntN(2) == 0 {
			tail = append(tail, Op{K: OpResolver, A: r.IntN(3), C: r.IntN(4), N: st()})
		}
		r.Shuffle(len(tail), func(a, b int) { tail[a], tail[b] = tail[b], tail[a] })
		frag = append(frag, tail...)
		if r.IntN(2) == 0 {
			// an UNBIND for the key completes while the replacement's READY report
			// (the takeover, which re-points the channel's keys) is delivered
			frag = append(frag, Op{K: OpSteps, A: 30}, Op{K: OpConn, A: -1, B: ConnProgress, N: 30},
				Op{K: OpPick, B: MUnbind, Keys: []int{k}, N: 30})
			end := []Op{{K: OpDone, A: -1, B: OutOK, Keys: []int{k}, N: st()}, {K: OpConn, A: -1, B: ConnProgress, N: st()}}
			if r.IntN(2) == 0 {
				end[0], end[1] = end[1], end[0]
			}
			frag = append(frag, end...)
			frag = append(frag, Op{K: OpSteps, A: 40})
		} else {
			frag = append(frag, Op{K: OpSteps, A: 30}, Op{K: OpConn, A: -1, B: ConnProgress, N: st()}, Op{K: OpConn, A: -1, B: ConnProgress, N: st()}, Op{K: OpSteps, A: 40})
		}
		at := 3 + r.IntN(len(p.Ops)-3)
		ops := append([]Op{}, p.Ops[:at]...)
		ops = append(ops, frag...)
		p.Ops = append(ops, p.Ops[at:]...)
	}
	// Directed concurrent fragment: a pool of one channel whose connection is
	// being refreshed; a key is bound to it for the first time by a BIND call whose
	// completion overlaps the replacement's READY report (the takeover, which
	// carries the channel's keys over). After the burst the key is called.
	if concurrent && (profile == "refresh" || profile == "affinity" || profile == "chaos") && p.Cfg.UMs > 0 && p.Cfg.UCalls > 0 && r.IntN(4) == 0 && len(p.Ops) > 4 {
		k := r.IntN(nKeys)
		st := func() int { return r.IntN(6) }
		n := int(p.Cfg.UCalls)
		p.Cfg.Min, p.Cfg.Max = 1, 1
		frag := []Op{{K: OpConn, A: 0, B: ConnProgress}, {K: OpConn, A: 0, B: ConnProgress}, {K: OpSteps, A: 60}}
		for c := 0; c < n; c++ {
			frag = append(frag, Op{K: OpPick, B: MPlain, D: 1, E: 1, N: 20})
		}
		frag = append(frag, Op{K: OpSteps, A: 40}, Op{K: OpAdvance, E: int(p.Cfg.UMs) + 2})
		for c := 0; c < n; c++ {
			frag = append(frag, Op{K: OpDone, A: -1, B: OutClientDE, N: 30})
		}
		frag = append(frag, Op{K: OpSteps, A: 30}, Op{K: OpConn, A: -1, B: ConnProgress, N: 30},
			Op{K: OpPick, B: MBind, Keys: []int{k}, N: 30})
		end := []Op{{K: OpDone, A: -1, B: OutOK, Keys: []int{k}, N: st()}, {K: OpConn, A: -1, B: ConnProgress, N: st()}}
		if r.IntN(2) == 0 {
			end[0], end[1] = end[1], end[0]
		}
		frag = append(frag, end...)
		frag = append(frag, Op{K: OpSteps, A: 40})
		at := 1 + r.IntN(2)
		ops := append([]Op{}, p.Ops[:at]...)
		ops = append(ops, frag...)
		p.Ops = append(ops, p.Ops[at:]...)
	}
	// Directed concurrent fragment (fallback on): a key's home channel is being
	// refreshed and its old connection has already left READY; calls for the key -
	// which need a stand-in - start while the replacement's READY report (the
	// takeover, which re-points the key) is processed.
	if concurrent && (profile == "fallback" || profile == "chaos") && r.IntN(4) == 0 && len(p.Ops) > 4 {
		k := r.IntN(nKeys)
		st := func() int { return r.IntN(5) }
		p.Cfg.Fallback, p.Cfg.RR = true, false
		p.Cfg.Min, p.Cfg.Max = 2, 2
		if p.Cfg.UCalls == 0 || p.Cfg.UMs == 0 || p.Cfg.UMs > 1000 {
			p.Cfg.UCalls, p.Cfg.UMs = 1, 10
		}
		n := int(p.Cfg.UCalls)
		frag := []Op{
			{K: OpConn, A: 0, B: ConnProgress}, {K: OpConn, A: 0, B: ConnProgress},
			{K: OpSteps, A: 60},
			{K: OpPick, B: MBind, Keys: []int{k}, N: 30}, // one READY channel: the key's home is channel 0
			{K: OpDone, A: -1, B: OutOK, Keys: []int{k}, N: 30},
			{K: OpConn, A: 1, B: ConnProgress, N: 20}, {K: OpConn, A: 1, B: ConnProgress, N: 20},
		}
		for c := 0; c < n; c++ {
			frag = append(frag, Op{K: OpPick, B: MBound, Keys: []int{k}, D: 1, E: 1, N: 20})
		}
		frag = append(frag, Op{K: OpSteps, A: 40}, Op{K: OpAdvance, E: int(p.Cfg.UMs) + 2})
		for c := 0; c < n; c++ {
			frag = append(frag, Op{K: OpDone, A: -1, B: OutClientDE, N: 30}) // refresh of the home starts
		}
		frag = append(frag, Op{K: OpSteps, A: 30},
			Op{K: OpConn, A: 0, B: ConnFail, N: 30},      // the old connection leaves READY
			Op{K: OpConn, A: -1, B: ConnProgress, N: 30}) // the replacement connects
		tail := []Op{{K: OpConn, A: -1, B: ConnProgress, N: st()}}
		for c := 2 + r.IntN(2); c > 0; c-- {
			tail = append(tail, Op{K: OpPick, B: MBound, Keys: []int{k}, N: st()})
		}
		r.Shuffle(len(tail), func(a, b int) { tail[a], tail[b] = tail[b], tail[a] })
		frag = append(frag, tail...)
		frag = append(frag, Op{K: OpSteps, A: 60})
		at := 1
		ops := append([]Op{}, p.Ops[:at]...)
		ops = append(ops, frag...)
		p.Ops = append(ops, p.Ops[at:]...)
	}
	// Directed concurrent fragment: two channels with equal load, unresponsive
	// detection on; calls are picked on a superseded and on the latest picker (their
	// channel lists may be in different orders) while one call of each channel
	// completes successfully - four parties that touch both channels' bookkeeping
	// at once, several rounds. Whatever they lock, in whatever order: all return.
	if concurrent && (profile == "chaos" || profile == "load" || profile == "refresh") && !p.Cfg.RR && r.IntN(5) == 0 && len(p.Ops) > 4 {
		p.Cfg.Min, p.Cfg.Max, p.Cfg.WM = 2, 2, 50
		if p.Cfg.UMs == 0 || p.Cfg.UCalls == 0 || p.Cfg.UMs > 1000 {
			p.Cfg.UMs, p.Cfg.UCalls = uint32(10*(1+r.IntN(5))), uint32(1+r.IntN(2))
		}
		st := func() int { return r.IntN(4) }
		frag := []Op{{K: OpConn, A: 0, B: ConnProgress}, {K: OpConn, A: 0, B: ConnProgress}, {K: OpConn, A: 1, B: ConnProgress}, {K: OpConn, A: 1, B: ConnProgress}, {K: OpSteps, A: 60}}
		for c := 0; c < 4; c++ {
			frag = append(frag, Op{K: OpPick, B: MPlain, N: 30}) // two calls in flight on each channel
		}
		frag = append(frag, Op{K: OpConn, A: 0, B: ConnFail, N: 30}, Op{K: OpConn, A: 0, B: ConnProgress, N: 30}, Op{K: OpConn, A: 0, B: ConnProgress, N: 30},
			Op{K: OpConn, A: 1, B: ConnFail, N: 30}, Op{K: OpConn, A: 1, B: ConnProgress, N: 30}, Op{K: OpConn, A: 1, B: ConnProgress, N: 30}, Op{K: OpSteps, A: 60})
		for round := 0; round < 3+r.IntN(3); round++ {
			frag = append(frag, Op{K: OpPick, B: MPlain, C: 1 + r.IntN(3), N: st()}, Op{K: OpPick, B: MPlain, N: st()},
				Op{K: OpDone, A: 0, B: OutOK, N: st()}, Op{K: OpDone, A: 1, B: OutOK, N: st()}, Op{K: OpSteps, A: 30})
		}
		at := 1
		ops := append([]Op{}, p.Ops[:at]...)
		ops = append(ops, frag...)
		p.Ops = append(ops, p.Ops[at:]...)
	}
	// Directed concurrent fragment: two or three READY channels, all one stream
	// below the watermark, room to grow, nothing connecting; then calls on a
	// superseded picker (as good as the latest) and on the latest one at once: two
	// of them may fill one channel, none of them finds every channel saturated
	// while another one is still a stream short - no channel may be added.
	if concurrent && (profile == "growth" || profile == "load") && !p.Cfg.RR && r.IntN(4) == 0 && len(p.Ops) > 4 {
		n := 2 + r.IntN(2)
		wm := 2 + r.IntN(2)
		p.Cfg.Min, p.Cfg.Max, p.Cfg.WM = uint32(n), uint32(n+2), uint32(wm)
		st := func() int { return r.IntN(6) }
		frag := []Op{}
		for c := 0; c < n; c++ {
			frag = append(frag, Op{K: OpConn, A: c, B: ConnProgress}, Op{K: OpConn, A: c, B: ConnProgress})
		}
		frag = append(frag, Op{K: OpSteps, A: 60})
		for c := 0; c < n*(wm-1); c++ {
			frag = append(frag, Op{K: OpPick, B: MPlain, N: 30}) // held: least-loaded placement spreads them evenly
		}
		// more publications with the same READY set
		frag = append(frag, Op{K: OpConn, A: 0, B: ConnFail, N: 30}, Op{K: OpConn, A: 0, B: ConnProgress, N: 30}, Op{K: OpConn, A: 0, B: ConnProgress, N: 30}, Op{K: OpSteps, A: 60})
		for c := 0; c < n-1; c++ {
			frag = append(frag, Op{K: OpPick, B: MPlain, C: 1 + r.IntN(2), N: st()}, Op{K: OpPick, B: MPlain, N: st()})
		}
		frag = append(frag, Op{K: OpSteps, A: 80})
		at := 1
		ops := append([]Op{}, p.Ops[:at]...)
		ops = append(ops, frag...)
		p.Ops = append(ops, p.Ops[at:]...)
	}
	// Directed concurrent fragment: one channel short of the maximum, every channel
	// saturated, nothing connecting; a call on a superseded picker and a call on
	// the latest one both find the pool saturated, and the state reports of the
	// channel the first of them adds are delivered right away. However the three
	// interleave - the second call may be suspended between "pool is below its
	// maximum" and the creation - the pool stays within maxSize.
	if concurrent && (profile == "growth" || profile == "load") && !p.Cfg.RR && r.IntN(3) == 0 && len(p.Ops) > 4 {
		mx := 2 + r.IntN(2)
		p.Cfg.Min, p.Cfg.Max, p.Cfg.WM = uint32(mx-1), uint32(mx), 1
		st := func() int { return r.IntN(5) }
		frag := []Op{}
		for c := 0; c < mx-1; c++ {
			frag = append(frag, Op{K: OpConn, A: c, B: ConnProgress}, Op{K: OpConn, A: c, B: ConnProgress})
		}
		frag = append(frag, Op{K: OpSteps, A: 40})
		for c := 0; c < mx-1; c++ {
			frag = append(frag, Op{K: OpPick, B: MPlain, N: 20}) // held: every channel at the watermark
		}
		// a few more publications with the same READY set: superseded pickers that
		// are as good as the latest one
		frag = append(frag, Op{K: OpConn, A: 0, B: ConnFail, N: 20}, Op{K: OpConn, A: 0, B: ConnProgress, N: 20}, Op{K: OpConn, A: 0, B: ConnProgress, N: 20}, Op{K: OpSteps, A: 40})
		frag = append(frag, Op{K: OpPick, B: MPlain, C: 2, N: st()}, Op{K: OpPick, B: MPlain, N: st()},
			Op{K: OpConn, A: -1, B: ConnProgress, N: st()}, Op{K: OpConn, A: -1, B: ConnProgress, N: st()},
			Op{K: OpPick, B: MPlain, C: 2, N: st()}, Op{K: OpSteps, A: 60})
		if r.IntN(2) == 0 {
			// then the older channels fail for good: what is published must count the
			// added channel with the state its reports (delivered while it was being
			// added) gave it
			for c := 0; c < mx-1; c++ {
				frag = append(frag, Op{K: OpConn, A: c, B: ConnFail, N: st()}, Op{K: OpConn, A: c, B: ConnProgress, N: st()}, Op{K: OpConn, A: c, B: ConnFail, N: st()})
			}
			frag = append(frag, Op{K: OpSteps, A: 60})
		}
		at := 1
		ops := append([]Op{}, p.Ops[:at]...)
		ops = append(ops, frag...)
		p.Ops = append(ops, p.Ops[at:]...)
	}
	// Directed concurrent fragment: a pool at its maximum size, every channel
	// READY, then a volley of unkeyed calls started together with nothing else
	// going on: whatever the interleaving, least-loaded placement is atomic, so
	// the calls spread evenly (OpMark / OpSpread).
	if concurrent && (profile == "load" || profile == "growth") && !p.Cfg.RR && r.IntN(3) == 0 && len(p.Ops) > 4 {
		n := 2 + r.IntN(2)
		p.Cfg.Min, p.Cfg.Max = uint32(n), uint32(n)
		p.Cfg.WM = 1 + uint32(r.IntN(2))
		frag := []Op{}
		for c := 0; c < n; c++ {
			frag = append(frag, Op{K: OpConn, A: c, B: ConnProgress}, Op{K: OpConn, A: c, B: ConnProgress})
		}
		frag = append(frag, Op{K: OpMark})
		for c := 0; c < 2*n+r.IntN(3); c++ {
			frag = append(frag, Op{K: OpPick, B: MPlain, N: r.IntN(4)})
		}
		frag = append(frag, Op{K: OpSpread})
		at := 1 + r.IntN(2)
		ops := append([]Op{}, p.Ops[:at]...)
		ops = append(ops, frag...)
		p.Ops = append(ops, p.Ops[at:]...)
	}
	// Directed concurrent fragment: round-robin BIND calls start while a refresh
	// of a channel whose old connection has already left READY completes.
	if concurrent && profile == "rr" && r.IntN(3) == 0 && len(p.Ops) > 4 {
		p.Cfg.UCalls, p.Cfg.UMs = 1, 10
		st := func() int { return r.IntN(5) }
		frag := []Op{
			{K: OpConn, A: 0, B: ConnProgress}, {K: OpConn, A: 0, B: ConnProgress},
			{K: OpConn, A: 1, B: ConnProgress}, {K: OpConn, A: 1, B: ConnProgress},
			{K: OpSteps, A: 80},
			{K: OpPick, B: MPlain, D: 1, E: 1, N: 40},
			{K: OpAdvance, E: 13},
			{K: OpDone, A: -1, B: OutClientDE, N: 60},  // refresh starts
			{K: OpConn, A: -2, B: ConnFail, N: 60},     // the old connection leaves READY
			{K: OpConn, A: -1, B: ConnProgress, N: 60}, // replacement: connecting
			{K: OpPick, B: MBind, Keys: []int{0}, N: st()},
			{K: OpPick, B: MBind, Keys: []int{1}, N: st()},
			{K: OpConn, A: -1, B: ConnProgress, N: st()}, // replacement READY: takeover
			{K: OpPick, B: MBind, Keys: []int{2}, N: st()},
		}
		if r.IntN(2) == 0 {
			// a waiting BIND gives up (context cancelled) while the takeover runs
			frag[len(frag)-2], frag[len(frag)-1] = frag[len(frag)-1], frag[len(frag)-2]
			frag = append(frag[:len(frag)-1], Op{K: OpCancel, A: r.IntN(3), N: st()}, frag[len(frag)-1], Op{K: OpCancel, A: r.IntN(3), N: st()})
			p.Verbose = p.Verbose || r.IntN(2) == 0
		}
		frag = append(frag, Op{K: OpSteps, A: 60})
		at := 1 + r.IntN(2)
		ops := append([]Op{}, p.Ops[:at]...)
		ops = append(ops, frag...)
		p.Ops = append(ops, p.Ops[at:]...)
	}
	// Directed fragment (scale x features): a pool that starts with 17-40 channels
	// (minSize = maxSize), all but one to three of them READY, under whatever
	// features the plan has plus round-robin BIND in most of these runs: BIND
	// calls whose context has ended or ends soon walk the whole rotation (and are
	// handed channels that are not READY), unkeyed calls between them. The rest
	// of the plan follows, its connection events spread over the whole pool.
	if (profile == "rr" || profile == "load" || profile == "fallback") && !concurrent && !p.Cfg.NilCfg && !p.Cfg.NilPool && r.IntN(25) == 0 && len(p.Ops) > 4 {
		n := 17 + r.IntN(24)
		p.Cfg.Min, p.Cfg.Max = uint32(n), uint32(n)
		if r.IntN(4) > 0 {
			p.Cfg.RR = true
		}
		down := map[int]int{}
		for k := 1 + r.IntN(3); k > 0; k-- {
			down[r.IntN(n)] = 1 + r.IntN(2)
		}
		var frag []Op
		for j := 0; j < n; j++ {
			switch down[j] {
			case 0:
				frag = append(frag, Op{K: OpConn, A: j, B: ConnProgress}, Op{K: OpConn, A: j, B: ConnProgress})
			case 1: // stays CONNECTING
				frag = append(frag, Op{K: OpConn, A: j, B: ConnProgress})
			case 2: // TRANSIENT_FAILURE
				frag = append(frag, Op{K: OpConn, A: j, B: ConnProgress}, Op{K: OpConn, A: j, B: ConnFail})
			}
		}
		for c := n + r.IntN(n); c > 0; c-- {
			b := Op{K: OpPick, B: MBind, Keys: []int{r.IntN(nKeys)}, D: 2}
			if r.IntN(3) == 0 {
				b.D, b.E = 1, 1+r.IntN(20)
			}
			frag = append(frag, b)
			if b.D == 1 {
				frag = append(frag, Op{K: OpAdvance, E: b.E + 1})
			}
			if r.IntN(4) > 0 {
				frag = append(frag, Op{K: OpDone, A: -1, B: []int{OutOK, OutAppErr, OutCancelled}[r.IntN(3)], Keys: []int{r.IntN(nKeys)}})
			}
			if r.IntN(2) == 0 {
				frag = append(frag, Op{K: OpPick, B: MPlain})
				if r.IntN(2) == 0 {
					frag = append(frag, Op{K: OpDone, A: -1, B: OutOK})
				}
			}
		}
		rest := append([]Op{}, p.Ops[1:]...)
		for i := range rest {
			if rest[i].K == OpConn && rest[i].A >= 0 {
				rest[i].A = r.IntN(n)
			}
		}
		ops := append([]Op{}, p.Ops[:1]...)
		ops = append(ops, frag...)
		p.Ops = append(ops, rest...)
		p.ScaleMix = true
	}
	for i := range p.Ops {
		p.Ops[i].ID = i + 1
	}
	if concurrent {
		n := 6 + r.IntN(14)
		for i := 0; i < n; i++ {
			o := Op{ID: 100000 + i}
			switch x := r.IntN(100); {
			case x < 45:
				o.K = OpPick
				o.B = []int{MPlain, MBind, MBound, MBound, MUnbind, MNoAff}[r.IntN(6)]
				o.Keys = []int{10 + r.IntN(2)} // keys the burst never used
				if r.IntN(6) == 0 {
					o.C = 1 + r.IntN(2)
				}
			case x < 75:
				o.K = OpDone
				o.A = r.IntN(4)
				o.B = []int{OutOK, OutOK, OutOK, OutAppErr, OutCancelled}[r.IntN(5)]
				o.Keys = []int{10 + r.IntN(2)}
			default:
				o.K = OpConn
				o.A = r.IntN(6)
				if r.IntN(3) == 0 {
					o.B = ConnFail
				}
			}
			p.Suffix = append(p.Suffix, o)
		}
	}
	// Last of all (the fragments above size their rounds by unresponsive_calls): a
	// detection threshold no history reaches - 2^31, 3*10^9 or 2^32-1 calls, legal
	// uint32 values. The same operations follow; no refresh may ever start.
	if (profile == "refresh" && r.IntN(20) == 0 || profile == "chaos" && r.IntN(40) == 0) && p.Cfg.UMs > 0 && p.Cfg.UCalls > 0 {
		p.Cfg.UCalls = []uint32{1 << 31, 3000000000, 1<<32 - 1}[r.IntN(3)]
	}
	return p
}

// Simplify returns simpler variants of the plan for the shrinker.
//
//go:norace
func Simplify(p *Plan) []*Plan {
	var out []*Plan
	add := func(f func(c *Plan) bool) {
		c := p.Clone()
		if f(c) {
			out = append(out, c)
		}
	}
	add(func(c *Plan) bool { ch := c.Concurrent; c.Concurrent = false; c.Suffix = nil; return ch })
	add(func(c *Plan) bool { ch := len(c.Suffix) > 0; c.Suffix = nil; return ch })
	add(func(c *Plan) bool { ch := len(c.Suffix) > 1; c.Suffix = c.Suffix[:len(c.Suffix)/2]; return ch })
	add(func(c *Plan) bool { ch := len(c.Cfg.Extra) > 0; c.Cfg.Extra = nil; return ch })
	add(func(c *Plan) bool { ch := c.Cfg.Locator != 0; c.Cfg.Locator = 0; return ch })
	add(func(c *Plan) bool { ch := c.Cfg.RR; c.Cfg.RR = false; return ch })
	add(func(c *Plan) bool { ch := c.Cfg.Fallback; c.Cfg.Fallback = false; return ch })
	add(func(c *Plan) bool {
		ch := c.Cfg.UCalls != 0 || c.Cfg.UMs != 0
		c.Cfg.UCalls, c.Cfg.UMs = 0, 0
		return ch
	})
	add(func(c *Plan) bool { ch := c.Cfg.Min > 1; c.Cfg.Min--; return ch })
	add(func(c *Plan) bool { ch := c.Cfg.Max > 1; c.Cfg.Max--; return ch })
	add(func(c *Plan) bool {
		ch := c.Cfg.NilPool || c.Cfg.NilCfg
		c.Cfg.NilPool, c.Cfg.NilCfg = false, false
		return ch
	})
	add(func(c *Plan) bool { ch := !c.Legal; c.Legal = true; return ch })
	add(func(c *Plan) bool { ch := c.SharedAddrs; c.SharedAddrs = false; return ch })
	add(func(c *Plan) bool { ch := c.OddKeys; c.OddKeys = false; return ch })
	add(func(c *Plan) bool { ch := c.HashKeys; c.HashKeys = false; return ch })
	add(func(c *Plan) bool { ch := c.Second; c.Second = false; return ch })
	add(func(c *Plan) bool { ch := c.DynMsg; c.DynMsg = false; return ch })
	add(func(c *Plan) bool { ch := c.UniField; c.UniField = false; return ch })
	for i := range p.Ops {
		if len(p.Ops) > 1500 {
			// plans of thousands of operations (scale fragments): every candidate is a
			// copy of the whole plan - operations are only removed (by the shrinker's
			// chunk removal) until the plan is small enough for these
			break
		}
		i := i
		o := p.Ops[i]
		if o.N != 0 {
			add(func(c *Plan) bool { c.Ops[i].N = 0; return true })
		}
		if o.F != 0 {
			add(func(c *Plan) bool { c.Ops[i].F = 0; return true })
		}
		if o.K == OpPick {
			if o.C != 0 {
				add(func(c *Plan) bool { c.Ops[i].C = 0; return true })
			}
			if o.D != 0 {
				add(func(c *Plan) bool { c.Ops[i].D, c.Ops[i].E = 0, 0; return true })
			}
			if o.B != MPlain {
				add(func(c *Plan) bool { c.Ops[i].B = MPlain; return true })
			}
			if len(o.Keys) > 1 {
				add(func(c *Plan) bool { c.Ops[i].Keys = c.Ops[i].Keys[:1]; return true })
			}
		}
		if o.K == OpDone && o.B != OutOK && o.B != OutAppErr {
			add(func(c *Plan) bool { c.Ops[i].B = OutAppErr; return true })
		}
		if o.A != 0 && (o.K == OpConn || o.K == OpDone || o.K == OpCancel) {
			add(func(c *Plan) bool { c.Ops[i].A = 0; return true })
		}
		for ki, kv := range o.Keys {
			if kv > 0 {
				ki := ki
				add(func(c *Plan) bool { c.Ops[i].Keys[ki] = 0; return true })
			}
		}
	}
	return out
}
