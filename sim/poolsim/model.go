package poolsim

import (
	"fmt"
	"sort"
	"strings"
	"time"

	"google.golang.org/grpc/connectivity"

	"verif.local/sim/simkit"
)

// The reference model is black-box bookkeeping written from the property
// statements (DESIGN §7). It consumes the event stream of a serial run in order
// and judges every pick, completion and balancer callback.

type role int

const (
	rolePool role = iota // current connection of a channel
	roleRepl             // replacement of an unfinished refresh
	roleOld              // old connection of a completed refresh / dropped
)

type connM struct {
	id   int
	ch   int
	role role
}

type chanM struct {
	idx        int
	cur        int
	state      connectivity.State
	gone       bool // left the pool (SHUTDOWN report)
	inflight   int
	repl       int
	refreshing bool
	k          [2]int           // refreshes since last response (variant A: swap counts as response boundary, B: it does not)
	kLo        [2]int           // least value k may have: below k only after a response that overlapped a takeover (either order is legal)
	lastResp   [2]time.Duration // A / B readings of "last response"
	de         [2]int
	created    time.Duration
	keys       int
}

type pubM struct {
	state connectivity.State
	ready []int // channel indexes READY at publication
	seq   int
}

type callM struct {
	invSeq   int // event sequence number of the pick's invocation
	ch       int // placed channel, -1 none
	start    time.Duration
	rr       bool
	rrIndex  int
	rrEpoch  int
	rrN      int
	cKey     string
	cSeq     int
	returned bool
	placed   bool
	bindDone bool    // its completion callback (a BIND's) is running
	exD      *expect // degraded serial run: the stand-in clause only
	retSeq   int     // event number of the pick's return (0 while it runs)
	ex       *expect
}

type effCfg struct {
	min, max, wm int
	fallback     bool
	detect       bool
	ucalls       int
	ums          time.Duration
	rr           bool
	methods      map[string]methodM // unambiguous mappings
	ambiguous    map[string]bool
	defaulted    map[string]bool
}

type methodM struct {
	cmd     int // 0 none, 1 BIND, 2 BOUND, 3 UNBIND
	locator string
}

const (
	cmdNone = iota
	cmdBind
	cmdBound
	cmdUnbind
)

type Model struct {
	s     *Sim
	cfg   effCfg
	chans []*chanM
	conns map[int]*connM
	keys  map[string]int
	fb    map[string]int
	pubs  []pubM
	calls map[int]*callM

	resolverSeen bool
	lastAddrs    string
	cfgFaulted   bool // caller's config mutated / second config delivered

	// per core op
	op        *coreOp
	rrSeq     []rrObs
	rrEpochN  int
	rrBounds  []rrBound
	rrBurst   []rrPick
	epoch     int
	rrInvoked int
	maxPool   int

	viol  []simkit.Violation
	track bool // concurrent burst: keep the structural state, give no verdicts
	// Concurrent-burst affinity oracle (stable facts only): once a BIND completion
	// for key K has RETURNED and no UNBIND for K was ever started, every BOUND call
	// for K placed while all channels are READY (no balancer callback overlapping)
	// goes to one and the same channel.
	cBound   map[string]bool
	cDropped map[string]bool
	cHome    map[string]int
	coreSeq  int
	degraded bool
	cBinds   map[string]int
	// event sequence numbers: start of the last successful UNBIND completion /
	// end of the last BIND completion that named the key
	cUnbindInv, cBindRet map[string]int
	cHomeSure            map[string]bool // home fixed by a BIND completion no other BIND completion overlapped
	bindDones            int             // BIND completion callbacks currently running
	bindOverlap          bool            // ... and whether another one overlapped the running ones
	readingOut           [2]bool         // C07: readings of "last response" contradicted so far in this run
	aggKnown             bool
	pds                  map[int]*donePending
	doneLog              []doneRec // completions that have returned: channel and event number (bursts only)
	growths              []growthRec
	lastSwapOld          int // connection replaced by the most recent takeover, and that report's event number
	lastSwapSeq          int
	lastSwapEnd          int // event number at which that report had been processed (0: still running)
	// Coverage probes.
	Probes map[string]int
	hash   uint64
	States []uint64
}

type coreOp struct {
	pubStates []connectivity.State // states published during this callback, in order
	op        int
	kind      string
	conn      int
	state     connectivity.State
	addrs     string
	first     bool
	newSC     []int
	newFail   int
	removed   []int
	pubs      int
	aggBefore connectivity.State
	readyBef  map[int]bool
	upd       map[int]bool
	conn2     map[int]bool
	poolEmpty bool
	swapOld   int
	swapCh    int
	kindConn  role
	known     bool
	aggKnown  bool
}

type rrObs struct {
	index int
	ch    int
	epoch int
}

//go:norace
func NewModel(s *Sim) *Model {
	m := &Model{s: s, conns: map[int]*connM{}, keys: map[string]int{}, fb: map[string]int{}, calls: map[int]*callM{}, Probes: map[string]int{}, hash: 1469598103934665603}
	c := s.plan.Cfg
	e := effCfg{min: int(c.Min), max: int(c.Max), wm: int(c.WM), fallback: c.Fallback, rr: c.RR, methods: map[string]methodM{}, ambiguous: map[string]bool{}, defaulted: map[string]bool{}}
	if c.NilCfg || c.NilPool {
		e.min, e.max, e.wm, e.fallback, e.rr = 0, 0, 0, false, false
		c.UCalls, c.UMs = 0, 0
	}
	if e.min == 0 {
		e.min = 1
		e.defaulted["min"] = true
	}
	if e.max == 0 {
		e.max = 4
		e.defaulted["max"] = true
	}
	if e.wm == 0 {
		e.wm = 100
		e.defaulted["wm"] = true
	}
	e.ucalls, e.ums = int(c.UCalls), time.Duration(c.UMs)*time.Millisecond
	e.detect = c.UCalls > 0 && c.UMs > 0
	if !c.NilCfg {
		count := map[string]int{}
		for _, me := range s.methodEntries() {
			for _, n := range me.names {
				count[n]++
			}
		}
		for _, me := range s.methodEntries() {
			for _, n := range me.names {
				if count[n] > 1 || me.unknownCmd {
					e.ambiguous[n] = true
					continue
				}
				if me.hasAff {
					e.methods[n] = methodM{cmd: me.cmd, locator: me.locator}
				}
			}
		}
	}
	m.cfg = e
	return m
}

//go:norace
func (m *Model) v(prop, rule, facts, msg string, op int) {
	burst := m.s != nil && m.s.plan.Concurrent && m.s.conc // degraded concurrent burst: only the burst-proof clauses
	if m.track && !(m.degraded && (!burst && prop == "C04" && (rule == "missing-publication" || rule == "inert-report-had-effect") ||
		prop == "C04" && rule == "published-state-mismatch" ||
		!burst && prop == "C20" && (rule == "replacement-stale-addrs" || rule == "new-conn-stale-addrs") ||
		prop == "C03" && rule == "growth-while-pending" ||
		!burst && prop == "C08" && rule == "stand-in-not-reused" ||
		!burst && prop == "C01" && rule == "bound-key-not-on-home" ||
		!burst && prop == "C09" && rule == "rr-not-cyclic" ||
		!burst && prop == "C02" && rule == "not-least-loaded")) {
		// degraded serial runs (a live connection was shut down under the pool):
		// C04 quantifies over "shutdowns in any order", its callback-level clauses
		// stay judged; so do C20's address clauses (a connection that joins the pool
		// holds the latest resolved list, whatever happened to the one it replaces);
		// C08's "the same stand-in is reused while it stays READY and the home stays
		// not READY" is stated over observed states (a home that was shut down is
		// not READY for good); nothing else does
		return
	}
	sig := prop + "|" + rule
	if facts != "" {
		sig += "|" + facts
	}
	m.viol = append(m.viol, simkit.Violation{Property: prop, Rule: rule, Sig: sig, Msg: msg, Op: op})
}

//go:norace
func (m *Model) probe(n string) { m.Probes[n]++ }

func (m *Model) vAlways(prop, rule, facts, msg string, op int) {
	if m.degraded {
		return
	}
	t := m.track
	m.track = false
	m.v(prop, rule, facts, msg, op)
	m.track = t
}

// vAlwaysOr reports like vAlways; in degraded runs it defers to v (which knows
// which clauses stay judged there).
func (m *Model) vAlwaysOr(degraded bool, prop, rule, facts, msg string, op int) {
	if degraded {
		m.v(prop, rule, facts, msg, op)
		return
	}
	m.vAlways(prop, rule, facts, msg, op)
}

func (m *Model) noneGone() bool {
	for _, ch := range m.chans {
		if ch.gone {
			return false
		}
	}
	return len(m.chans) > 0
}

//go:norace
func (m *Model) allReady() bool {
	if len(m.chans) == 0 {
		return false
	}
	for _, ch := range m.chans {
		if ch.gone || ch.state != connectivity.Ready || ch.refreshing {
			return false
		}
	}
	return true
}

// KnownBound returns the burst keys that are certainly bound, and where: the
// first BIND completion naming the key ran without another BIND completion
// beside it (it decides the channel; later BINDs do not move a bound key) and
// no UNBIND for the key was ever started.
//
//go:norace
func (m *Model) KnownBound() (keys []string, home map[string]int) {
	home = map[string]int{}
	for k := range m.cHomeSure {
		if k != "" && m.cBound[k] && !m.cDropped[k] {
			keys = append(keys, k)
			home[k] = m.cHome[k]
		}
	}
	sort.Strings(keys)
	return
}

// KnownUnbound returns the burst keys that are certainly unbound now: a
// successful UNBIND completion for the key began after every BIND completion
// that named it had returned (and every call has completed since).
//
//go:norace
func (m *Model) KnownUnbound() []string {
	var out []string
	for k, ui := range m.cUnbindInv {
		if br, ok := m.cBindRet[k]; k != "" && ok && ui > br {
			out = append(out, k)
		}
	}
	sort.Strings(out)
	return out
}

// trackKeyedInvoke: bookkeeping of the concurrent-burst affinity oracle at the
// invocation of a pick.
func (m *Model) trackKeyedInvoke(c *Call, cm *callM) {
	if m.cBound == nil {
		m.cBound, m.cDropped, m.cHome, m.cBinds = map[string]bool{}, map[string]bool{}, map[string]int{}, map[string]int{}
		m.cUnbindInv, m.cBindRet = map[string]int{}, map[string]int{}
	}
	if c.NoGCP || m.cfg.ambiguous[c.MethodName] {
		return // no key visible to the picker
	}
	mm, ok := m.cfg.methods[c.MethodName]
	if !ok || (mm.cmd != cmdBound && mm.cmd != cmdUnbind) {
		return
	}
	keys, err := modelKeys(mm.locator, c.ReqKeys, c.NilMsg)
	if err != nil || len(keys) == 0 || keys[0] == "" {
		return
	}
	k := keys[0]
	if mm.cmd == cmdUnbind {
		// any UNBIND call for the key (unary or stream path, any picker) may
		// unbind it whenever it completes: the key is never judged again
		m.cDropped[k] = true
		return
	}
	if c.Stream || c.Age != 0 {
		return
	}
	// m.op != nil: a balancer callback is in flight; the model has already
	// applied its report but the balancer may not have yet
	if m.cBound[k] && !m.cDropped[k] && m.op == nil && m.allReady() {
		cm.cKey, cm.cSeq = k, m.coreSeq
		m.probe("concurrent_bound_pick_judged")
	}
}

//go:norace
func (m *Model) poolSize() int {
	n := 0
	for _, c := range m.chans {
		if !c.gone {
			n++
		}
	}
	return n
}

//go:norace
func (m *Model) aggregate() connectivity.State {
	ready, conn := false, false
	for _, c := range m.chans {
		if c.gone {
			continue
		}
		switch c.state {
		case connectivity.Ready:
			ready = true
		case connectivity.Connecting:
			conn = true
		}
	}
	if ready {
		return connectivity.Ready
	}
	if conn {
		return connectivity.Connecting
	}
	return connectivity.TransientFailure
}

//go:norace
func (m *Model) readySet() map[int]bool {
	r := map[int]bool{}
	for _, c := range m.chans {
		if !c.gone && c.state == connectivity.Ready {
			r[c.idx] = true
		}
	}
	return r
}

//go:norace
func (m *Model) readyList() []int {
	var r []int
	for _, c := range m.chans {
		if !c.gone && c.state == connectivity.Ready {
			r = append(r, c.idx)
		}
	}
	return r
}

//go:norace
func (m *Model) chanOfConn(id int) (*chanM, *connM) {
	c := m.conns[id]
	if c == nil || c.ch < 0 {
		return nil, c
	}
	return m.chans[c.ch], c
}

// stateHash records a hash of the abstract state after each operation
// (distinct-states coverage measure).
//
//go:norace
func (m *Model) stateHash() {
	h := uint64(1469598103934665603)
	mix := func(x uint64) { h ^= x; h *= 1099511628211 }
	for _, c := range m.chans {
		mix(uint64(c.state) + 7)
		mix(uint64(c.inflight) + 31)
		if c.refreshing {
			mix(3)
		}
		if c.gone {
			mix(5)
		}
		mix(uint64(c.k[0]))
		mix(uint64(c.keys) + 11)
	}
	// the key table enters as a commutative sum of per-entry hashes (no sorting:
	// plans hold thousands of keys and this runs after every operation)
	var ksum uint64
	for k, h2 := range m.keys {
		e := uint64(14695981039346656037)
		for i := 0; i < len(k); i++ {
			e ^= uint64(k[i])
			e *= 1099511628211
		}
		e ^= uint64(h2) + 0x9e3779b97f4a7c15
		e *= 1099511628211
		ksum += e
	}
	mix(ksum)
	mix(uint64(len(m.fb)) + 13)
	if len(m.pubs) > 0 {
		mix(uint64(m.pubs[len(m.pubs)-1].state) + 17)
	}
	m.States = append(m.States, h)
}

// On consumes one event.
//
//go:norace
func (m *Model) On(ev Event) {
	switch ev.Kind {
	case EvOpStart:
		m.opStart(ev)
	case EvOpEnd:
		m.opEnd(ev)
	case EvNewSC:
		m.newSC(ev)
	case EvNewSCFail:
		m.newSCFail(ev)
	case EvRemoveSC:
		m.removeSC(ev)
	case EvUpdateState:
		m.published(ev)
	case EvUpdateAddrs:
		if m.op != nil {
			m.op.upd[ev.Conn] = true
		}
	case EvConnect:
		if m.op != nil {
			m.op.conn2[ev.Conn] = true
		}
	case EvPickInvoke:
		m.pickInvoke(ev)
	case EvPickReturn:
		m.pickReturn(ev)
	case EvDoneInvoke:
		m.doneInvoke(ev)
	case EvDoneReturn:
		m.doneReturn(ev)
	}
}

// ---------------------------------------------------------------- core ops

//go:norace
func (m *Model) opStart(ev Event) {
	m.coreSeq++
	o := &coreOp{op: ev.Op, kind: ev.Note, conn: ev.Conn, state: ev.State, addrs: ev.Addrs,
		aggBefore: m.aggregate(), aggKnown: m.aggKnown, readyBef: m.readySet(), upd: map[int]bool{}, conn2: map[int]bool{}, swapOld: -1, swapCh: -1}
	m.op = o
	switch {
	case strings.HasPrefix(o.kind, "resolver"):
		o.first = !m.resolverSeen
		o.poolEmpty = m.poolSize() == 0
		if o.addrs != "[]" {
			m.lastAddrs = o.addrs
		} else {
			m.lastAddrs = ""
		}
		if strings.Contains(o.kind, "cfg2") && m.resolverSeen {
			m.cfgFaulted = true
		}
	case o.kind == "conn":
		ch, c := m.chanOfConn(o.conn)
		if c != nil {
			o.known = true
			o.kindConn = c.role
		}
		if c == nil || c.role == roleOld || ch == nil {
			m.probe("report_for_removed_or_unknown_conn")
			return
		}
		if c.role == roleRepl {
			m.probe("report_for_replacement_conn")
			if o.state == connectivity.Ready {
				// The replacement takes over its channel.
				o.swapOld, o.swapCh = ch.cur, ch.idx
				m.lastSwapOld, m.lastSwapSeq, m.lastSwapEnd = ch.cur, ev.Seq, 0
				old := m.conns[ch.cur]
				old.role = roleOld
				c.role = rolePool
				ch.cur = c.id
				ch.repl = -1
				ch.refreshing = false
				ch.state = connectivity.Ready
				// a channel whose connection had been shut down under the pool and that
				// was refreshed through a superseded picker is a pool member again
				if ch.gone {
					ch.gone = false
					m.epoch++ // the pool's composition changed (round-robin cycle, C09)
				}
				ch.k[0]++
				ch.k[1]++
				ch.kLo[0]++
				ch.kLo[1]++
				ch.lastResp[0] = ev.At
				ch.de[0] = 0
				for _, pd := range m.pds {
					if pd.ch == ch && pd.resp {
						// a response of this channel is being delivered (its completion
						// callback has not returned): the library may count the takeover
						// before it or after it
						ch.kLo[0], ch.kLo[1] = 0, 0
						m.probe("response_overlaps_takeover")
					}
				}
				m.probe("refresh_swap")
				m.afterReadyChange(ch)
			}
			return
		}
		// current pool connection
		wasReady := ch.state == connectivity.Ready
		ch.state = o.state
		if o.state == connectivity.Shutdown {
			ch.gone = true
			m.epoch++
			m.rrBounds = append(m.rrBounds, rrBound{seq: ev.Seq, n: -1})
			m.probe("pool_conn_shutdown")
		}
		if wasReady != (o.state == connectivity.Ready) {
			m.afterReadyChange(ch)
		}
	}
}

// afterReadyChange maintains the observed stand-in table (C08): a stand-in is
// dropped when it leaves READY and when the key's home is READY again.
//
//go:norace
func (m *Model) afterReadyChange(ch *chanM) {
	for k, t := range m.fb {
		if t == ch.idx && (ch.state != connectivity.Ready || ch.gone) {
			delete(m.fb, k)
		}
		if h, ok := m.keys[k]; ok && h == ch.idx && ch.state == connectivity.Ready {
			delete(m.fb, k)
		}
	}
}

// growthJustified (C03, concurrent bursts, schedule-independent): "a channel is
// added only by a call that finds every READY channel at or above the
// watermark". The counts a pick reads are not known, but bounded: a channel of
// the pick's picker cannot have shown more streams than the calls placed on it
// and not yet completing when the channel is added, plus the other picks that
// overlap this one and end up on that channel (they may have counted themselves
// there already), plus the completions of its calls that were still running when
// this pick started or began since (their decrement may have come after the
// read). A channel whose bound is below the watermark was read below it: the
// growth is not justified under any interleaving. Recorded when the channel is
// added, judged once the burst has quiesced (where every overlapping pick went
// is known then).
//
//go:norace
func (m *Model) growthJustified(ev Event) {
	c := m.s.calls[ev.Call]
	cm := m.calls[ev.Call]
	if cm == nil || cm.rr || c.PubIdx < 0 || c.PubIdx >= len(m.pubs) || m.cfg.wm <= 0 {
		return
	}
	g := growthRec{call: ev.Call, conn: ev.Conn, inv: cm.invSeq, seq: ev.Seq, op: ev.Op}
	for _, r := range m.pubs[c.PubIdx].ready {
		ch := m.chans[r]
		n := ch.inflight
		for _, pd := range m.pds {
			if pd.ch == ch {
				n++ // completion running: its decrement may not have happened
			}
		}
		g.ready = append(g.ready, r)
		g.base = append(g.base, n)
	}
	m.growths = append(m.growths, g)
}

type growthRec struct {
	call, conn, inv, seq, op int
	ready, base              []int
}

// GrowthBurstCheck judges the recorded growths of a quiesced burst.
//
//go:norace
func (m *Model) GrowthBurstCheck() {
	for _, g := range m.growths {
		for i, r := range g.ready {
			ub, picks, dones := g.base[i], 0, 0
			for id, o := range m.calls {
				// placed on r, started before the channel was added, and not already
				// counted in base (it had not returned by then)
				if id != g.call && o.placed && o.ch == r && o.invSeq < g.seq && o.retSeq > g.seq {
					picks++
				}
			}
			for _, d := range m.doneLog {
				if d.ch == r && d.ret > g.inv && d.ret < g.seq {
					dones++ // returned while this pick ran: counted at the read, perhaps
				}
			}
			ub += picks + dones
			m.probe("concurrent_growth_bound_judged")
			if ub < m.cfg.wm {
				m.vAlways("C03", "growth-although-unsaturated", "concurrent", fmt.Sprintf("call %d added connection sc%d to the pool although channel %d, READY in its picker, cannot have shown it more than %d streams (placed and not completed %d, overlapping picks that went there %d, completions overlapping this pick %d) and the watermark is %d: a channel is added only by a call that finds every READY channel at or above the watermark", g.call, g.conn, r, ub, g.base[i], picks, dones, m.cfg.wm), g.op)
				return
			}
		}
	}
	m.growths = nil
}

//go:norace
func (m *Model) newSC(ev Event) {
	switch ev.Phase {
	case PhDone:
		// refresh replacement of the completed call's channel
		cm := m.calls[ev.Call]
		if cm == nil || cm.ch < 0 {
			m.v("C07", "replacement-unattributable", "", fmt.Sprintf("NewSubConn sc%d in a completion callback of a call that was not placed", ev.Conn), ev.Op)
			m.conns[ev.Conn] = &connM{id: ev.Conn, ch: -1, role: roleOld}
			return
		}
		ch := m.chans[cm.ch]
		if ch.refreshing {
			// schedule-independent (also judged during concurrent bursts): while the
			// replacement of a channel is pending - no READY report for it has even
			// started - no completion may create another one
			msg := fmt.Sprintf("channel %d got a second replacement sc%d while sc%d is still pending", ch.idx, ev.Conn, ch.repl)
			m.vAlways("C07", "second-replacement", "", msg, ev.Op)
			m.vAlways("C03", "two-extra-connections-for-one-channel", "", msg+" (a refresh may hold one extra connection per refreshing channel)", ev.Op)
		}
		ch.refreshing = true
		ch.repl = ev.Conn
		m.conns[ev.Conn] = &connM{id: ev.Conn, ch: ch.idx, role: roleRepl}
		m.probe("refresh_started")
	default:
		// pool growth (pick) or pool creation (resolver update)
		if m.track && ev.Phase == PhPick && m.op == nil {
			// Concurrent burst, schedule-independent (C03): the pool is grown and the
			// "no channel is idle or connecting" guard is evaluated in one critical
			// section of the balancer, and only balancer callbacks change a channel's
			// state. With no callback in flight at this instant the balancer knows
			// exactly the states delivered so far: a channel that is still idle or
			// connecting forbids the growth, whichever calls run beside this one.
			for _, o := range m.chans {
				if !o.gone && (o.state == connectivity.Idle || o.state == connectivity.Connecting) {
					m.vAlwaysOr(m.degraded, "C03", "growth-while-pending", "concurrent", fmt.Sprintf("call %d added connection sc%d to the pool while channel %d (sc%d) is %v and no state report is being processed: a channel is added only while no channel is idle or connecting", ev.Call, ev.Conn, o.idx, o.cur, o.state), ev.Op)
					break
				}
			}
			m.probe("concurrent_growth_judged")
		}
		if m.track && !m.degraded && ev.Phase == PhPick {
			m.growthJustified(ev)
		}
		ch := &chanM{idx: len(m.chans), cur: ev.Conn, state: connectivity.Idle, repl: -1, created: ev.At}
		ch.lastResp[0], ch.lastResp[1] = ev.At, ev.At
		m.chans = append(m.chans, ch)
		m.conns[ev.Conn] = &connM{id: ev.Conn, ch: ch.idx, role: rolePool}
		m.epoch++
		m.rrBounds = append(m.rrBounds, rrBound{seq: ev.Seq, n: len(m.chans)})
		if m.op != nil && ev.Phase == PhCore {
			m.op.newSC = append(m.op.newSC, ev.Conn)
		}
		if ev.Phase == PhCore && (m.op == nil || !strings.HasPrefix(m.op.kind, "resolver")) {
			m.v("C03", "growth-in-callback", "", fmt.Sprintf("NewSubConn sc%d during a %s callback", ev.Conn, m.opKind()), ev.Op)
		}
		if m.lastAddrs != "" && ev.Addrs != m.lastAddrs {
			m.v("C20", "new-conn-stale-addrs", "", fmt.Sprintf("sc%d created with %s, latest resolved list is %s", ev.Conn, ev.Addrs, m.lastAddrs), ev.Op)
		}
		if n := m.poolSize(); n > m.maxPool {
			m.maxPool = n
			if n == 33 {
				m.probe("pool_reached_33_channels")
			}
			if n == 257 {
				m.probe("pool_reached_257_channels")
			}
			if n == 513 {
				m.probe("pool_reached_513_channels")
			}
		}
		if m.cfg.min <= m.cfg.max && m.poolSize() > m.cfg.max {
			m.v("C03", "pool-exceeds-max", "", fmt.Sprintf("pool has %d channels, maxSize %d", m.poolSize(), m.cfg.max), ev.Op)
		}
	}
}

//go:norace
func (m *Model) opKind() string {
	if m.op == nil {
		return "?"
	}
	return m.op.kind
}

//go:norace
func (m *Model) newSCFail(ev Event) {
	if m.op != nil && ev.Phase == PhCore {
		m.op.newFail++
	}
	if ev.Note == "empty" && m.lastAddrs != "" {
		// the channel core rejects an empty list; asking for a connection with no
		// addresses while the resolver's latest list is not empty is C20's
		// "connections added later use the most recently resolved list"
		m.v("C20", "new-conn-stale-addrs", "empty", fmt.Sprintf("NewSubConn called with an empty address list, latest resolved list is %s", m.lastAddrs), ev.Op)
	}
}

//go:norace
func (m *Model) removeSC(ev Event) {
	if m.op != nil {
		m.op.removed = append(m.op.removed, ev.Conn)
	}
	ok := m.op != nil && m.op.swapOld == ev.Conn && ev.Phase == PhCore
	if ok {
		n := 0
		for _, r := range m.op.removed {
			if r == ev.Conn {
				n++
			}
		}
		ok = n == 1
	}
	if !ok {
		m.v("C03", "illegal-remove", "", fmt.Sprintf("RemoveSubConn(sc%d) which is not the old connection of a refresh completed by this report", ev.Conn), ev.Op)
	}
}

//go:norace
func (m *Model) published(ev Event) {
	p := pubM{state: ev.State, ready: m.readyList(), seq: ev.Seq}
	m.pubs = append(m.pubs, p)
	if m.op != nil {
		m.op.pubs++
		m.op.pubStates = append(m.op.pubStates, ev.State)
	}
}

//go:norace
func (m *Model) opEnd(ev Event) {
	o := m.op
	if o == nil {
		return
	}
	defer func() { m.op = nil; m.stateHash() }()
	if o.swapOld >= 0 && o.swapOld == m.lastSwapOld && m.lastSwapEnd == 0 {
		m.lastSwapEnd = ev.Seq
	}
	if ev.Note == "panic" {
		return
	}
	switch {
	case strings.HasPrefix(o.kind, "resolver"):
		empty := o.addrs == "[]"
		if !empty {
			m.lastAddrs = o.addrs
		} else {
			m.lastAddrs = ""
		}
		if o.first {
			m.resolverSeen = true
			if !empty {
				want := m.cfg.min
				if want < 1 {
					want = 1
				}
				got := len(o.newSC)
				if got != want && o.newFail == 0 {
					msg := fmt.Sprintf("first resolver update created %d channels, want max(1,minSize)=%d", got, want)
					m.v("C03", "initial-size", "", msg, ev.Op)
					m.v("C17", "initial-size", "", msg, ev.Op)
				}
			}
		} else if !empty {
			if o.poolEmpty {
				if len(o.newSC) > 1 {
					m.v("C03", "recreate-emptied-pool", "", fmt.Sprintf("resolver update on an emptied pool created %d channels", len(o.newSC)), ev.Op)
				}
			} else if len(o.newSC) > 0 {
				m.v("C03", "growth-in-resolver-update", "", fmt.Sprintf("resolver update created %d channels although the pool was not empty", len(o.newSC)), ev.Op)
			}
		}
		if !empty {
			// C20: every pool connection uses the latest list and was asked to connect.
			for _, ch := range m.chans {
				if ch.gone {
					continue
				}
				sc := m.s.env.Conns[ch.cur]
				if sc.Addrs != o.addrs {
					m.v("C20", "pool-conn-stale-addrs", "", fmt.Sprintf("after resolver update %s pool connection sc%d still uses %s", o.addrs, sc.ID, sc.Addrs), ev.Op)
				} else if !o.conn2[sc.ID] {
					m.v("C20", "pool-conn-not-reconnected", "", fmt.Sprintf("after resolver update pool connection sc%d was not asked to connect", sc.ID), ev.Op)
				}
			}
		}
	case o.kind == "reserr":
		// a resolver error changes nothing
	case o.kind == "conn":
		if o.swapOld >= 0 {
			n := 0
			for _, r := range o.removed {
				if r == o.swapOld {
					n++
				}
			}
			if n != 1 {
				m.v("C07", "old-conn-not-removed-once", "", fmt.Sprintf("refresh of channel %d completed but RemoveSubConn(sc%d) was called %d times", o.swapCh, o.swapOld, n), ev.Op)
			}
			ch := m.chans[o.swapCh]
			if m.lastAddrs != "" {
				if sc := m.s.env.Conns[ch.cur]; sc.Addrs != m.lastAddrs {
					m.v("C20", "replacement-stale-addrs", "", fmt.Sprintf("replacement sc%d took over channel %d with %s, latest resolved list is %s", sc.ID, ch.idx, sc.Addrs, m.lastAddrs), ev.Op)
				}
			}
		}
	}
	if o.kind == "reserr" || (o.kind == "conn" && (!o.known || (o.kindConn != rolePool && o.swapOld < 0))) {
		// Inert callbacks (resolver error; report for a replacement that is not
		// READY yet, for a removed or unknown connection) must not change the pool.
		// Re-publishing the unchanged state or asking a connection to connect is
		// harmless and not forbidden by the statements; creating or removing
		// connections is.
		if len(o.newSC) > 0 || len(o.removed) > 0 {
			prop, rule := "C04", "inert-report-had-effect"
			if o.kind == "reserr" {
				prop, rule = "C20", "resolver-error-had-effect"
			}
			m.v(prop, rule, "", fmt.Sprintf("%s changed the pool: new=%d removed=%d", o.kind, len(o.newSC), len(o.removed)), ev.Op)
		}
		if o.kind == "reserr" && (len(o.upd) > 0) {
			m.v("C20", "resolver-error-had-effect", "addrs", "a resolver error pushed addresses to connections", ev.Op)
		}
	}
	// C04: published state and publication obligations.
	agg := m.aggregate()
	readyNow := m.readySet()
	changedReady := len(readyNow) != len(o.readyBef)
	if !changedReady {
		for k := range readyNow {
			if !o.readyBef[k] {
				changedReady = true
			}
		}
	}
	tfChange := (agg == connectivity.TransientFailure) != (o.aggBefore == connectivity.TransientFailure)
	// The aggregate exists from the first report for a pool connection on (the
	// all-idle pool before it is not required to count as TRANSIENT_FAILURE).
	if (changedReady || (tfChange && o.aggKnown)) && o.pubs == 0 {
		m.v("C04", "missing-publication", "", fmt.Sprintf("%s sc%d->%v changed readiness=%v aggregate-tf=%v but nothing was published", o.kind, o.conn, o.state, changedReady, tfChange), ev.Op)
	}
	if o.kind == "conn" && o.known && (o.kindConn == rolePool || o.swapOld >= 0) {
		m.aggKnown = true
	}
	// "Whenever the balancer has published a state ... the last published state
	// is ..." holds between two publications of one callback too (calls are
	// picked meanwhile): every publication made while a connection's report is
	// processed shows the aggregate from before the report or the one after it.
	if o.kind == "conn" && o.aggKnown && len(m.chans) > 0 {
		for i, st := range o.pubStates {
			if st != o.aggBefore && st != agg {
				m.vAlways("C04", "transient-publication", "", fmt.Sprintf("while processing %s sc%d->%v the balancer published %v (publication %d of %d in that callback); the pool aggregate was %v before the report and is %v after it", o.kind, o.conn, o.state, st, i+1, len(o.pubStates), o.aggBefore, agg), ev.Op)
				break
			}
		}
	}
	if len(m.pubs) > 0 && len(m.chans) > 0 {
		last := m.pubs[len(m.pubs)-1]
		if last.state != agg {
			// balancer callbacks are serialized and only they change a connection's
			// state or publish: the clause holds at the end of every callback whatever
			// picks and completions run beside it (judged during bursts too)
			facts := ""
			if m.track && !m.degraded {
				facts = "concurrent"
			}
			m.vAlwaysOr(m.degraded, "C04", "published-state-mismatch", facts, fmt.Sprintf("last published state %v, pool aggregate %v (after %s sc%d->%v)", last.state, agg, o.kind, o.conn, o.state), ev.Op)
		}
	}
}

// ---------------------------------------------------------------- picks

type expect struct {
	kind    string // "tf" | "notplaced" | "wait" | "placed" | "any" | "waitorplaced"
	allowed map[int]bool
	grow    int // -1 unknown, 0 must not, 1 must
	prop    string
	rule    string
	facts   string
	why     string
	standIn string // key whose stand-in is being chosen
}

//go:norace
func set(xs ...int) map[int]bool {
	s := map[int]bool{}
	for _, x := range xs {
		s[x] = true
	}
	return s
}

//go:norace
func (m *Model) pickInvoke(ev Event) {
	c := m.s.calls[ev.Call]
	cm := &callM{ch: -1, invSeq: ev.Seq}
	m.calls[ev.Call] = cm
	if c.PubIdx < 0 || c.PubIdx >= len(m.pubs) {
		return
	}
	p := m.pubs[c.PubIdx]
	mm, isMapped := m.cfg.methods[c.MethodName]
	if isMapped && mm.cmd == cmdBind && m.cfg.rr && p.state != connectivity.TransientFailure && len(p.ready) > 0 {
		cm.rr = true
		cm.rrIndex = m.rrInvoked
		cm.rrEpoch, cm.rrN = m.epoch, m.poolSize()
		m.rrInvoked++
	}
	if m.track {
		m.trackKeyedInvoke(c, cm)
		if m.degraded && !(m.s != nil && m.s.plan.Concurrent && m.s.conc) {
			// degraded serial run: of the placement clauses only C08's "the same
			// stand-in is reused while it stays READY and the home stays not READY"
			// remains (it is stated over observed states; a home that was shut down
			// is not READY for good). Which channel becomes a stand-in is recorded,
			// not judged.
			if ex := m.expectPick(c, cm); ex.prop == "C08" && (ex.rule == "stand-in-not-reused" || ex.standIn != "") ||
				ex.prop == "C01" && ex.rule == "bound-key-not-on-home" ||
				ex.prop == "C02" && ex.rule == "not-least-loaded" && ex.kind == "placed" && m.noneGone() {
				// (and C02's least-loaded placement of unkeyed / unknown-key calls once
				// every channel that was shut down has rejoined: the pool is what it was)
				// (likewise C01's "no call for K is placed on another channel while K's
				// channel is READY": the home is a channel still in the pool and READY)
				cm.exD = &ex
			}
		}
		return
	}
	// The expectation is computed against the state the pick finds, before its
	// own effects (pool growth) are applied to the model.
	ex := m.expectPick(c, cm)
	cm.ex = &ex
}

//go:norace
func (m *Model) expectPick(c *Call, cm *callM) expect {
	p := m.pubs[c.PubIdx]
	latest := c.PubIdx == len(m.pubs)-1
	staleF := "stale=0"
	if !latest {
		staleF = "stale=1"
	}
	if p.state == connectivity.TransientFailure {
		return expect{kind: "tf", prop: "C04", rule: "tf-picker-must-fail-fast", facts: staleF}
	}
	if len(p.ready) == 0 {
		return expect{kind: "notplaced", prop: "C02", rule: "placed-without-ready-channel", facts: staleF, grow: 0}
	}
	if m.cfg.ambiguous[c.MethodName] {
		return expect{kind: "any", grow: -1}
	}
	mm := m.cfg.methods[c.MethodName]
	if cm.rr {
		return expect{kind: "rr", grow: -1}
	}
	if (mm.cmd == cmdBound || mm.cmd == cmdUnbind) && !c.NoGCP {
		keys, err := modelKeys(mm.locator, c.ReqKeys, c.NilMsg)
		if err != nil || len(keys) == 0 {
			m.probe("key_extraction_fails")
			return expect{kind: "any", grow: -1}
		}
		K := keys[0]
		if h, ok := m.keys[K]; ok && K != "" {
			home := m.chans[h]
			if home.state == connectivity.Ready && !home.gone {
				m.probe("keyed_pick_home_ready")
				if latest {
					return expect{kind: "placed", allowed: set(h), prop: "C01", rule: "bound-key-not-on-home", facts: staleF + m.refreshFact(home), grow: 0,
						why: fmt.Sprintf("key %q is bound to channel %d which is READY", K, h)}
				}
				return expect{kind: "placedornot", allowed: set(h), prop: "C01", rule: "bound-key-on-other-channel", facts: staleF + m.refreshFact(home), grow: 0,
					why: fmt.Sprintf("key %q is bound to channel %d which is READY", K, h)}
			}
			if !m.cfg.fallback {
				m.probe("keyed_pick_home_down_nofallback")
				return expect{kind: "wait", prop: "C01", rule: "home-down-no-fallback", facts: staleF, grow: 0,
					why: fmt.Sprintf("key %q is bound to channel %d which is %v and fallback is off", K, h, home.state)}
			}
			// C08
			ready := m.readyList()
			m.probe("keyed_pick_home_down_fallback")
			if t, ok := m.fb[K]; ok {
				m.probe("fallback_standin_reuse")
				kind := "placed"
				if !latest {
					kind = "placedornot"
				}
				return expect{kind: kind, allowed: set(t), prop: "C08", rule: "stand-in-not-reused", facts: staleF + m.refreshFact(m.chans[t]), grow: 0,
					why: fmt.Sprintf("key %q (home %d is %v) uses stand-in channel %d which is still READY", K, h, home.state, t)}
			}
			if len(ready) == 0 {
				return expect{kind: "notplaced", prop: "C08", rule: "fallback-without-ready", facts: staleF, grow: -1}
			}
			sat := "sat=0"
			allSat := true
			for _, r := range ready {
				if m.chans[r].inflight < m.cfg.wm {
					allSat = false
				}
			}
			if allSat {
				sat = "sat=1"
				m.probe("fallback_all_ready_saturated")
			}
			if latest {
				return expect{kind: "placed", allowed: set(ready...), prop: "C08", rule: "no-stand-in-although-ready", facts: staleF + "|" + sat, grow: -1, standIn: K,
					why: fmt.Sprintf("key %q: home %d is %v, fallback on, READY channels %v", K, h, home.state, ready)}
			}
			return expect{kind: "any", grow: -1, standIn: K}
		}
	}
	// unkeyed / unknown key: least loaded among the picker's READY channels
	minC := 1 << 30
	for _, r := range p.ready {
		if m.chans[r].inflight < minC {
			minC = m.chans[r].inflight
		}
	}
	var mins []int
	for _, r := range p.ready {
		if m.chans[r].inflight == minC {
			mins = append(mins, r)
		}
	}
	if minC < m.cfg.wm {
		return expect{kind: "placed", allowed: set(mins...), prop: "C02", rule: "not-least-loaded", facts: staleF, grow: 0,
			why: fmt.Sprintf("picker READY channels %v, counts %v, min %d < watermark %d", p.ready, m.counts(p.ready), minC, m.cfg.wm)}
	}
	m.probe("pick_all_saturated")
	if m.poolSize() < m.cfg.max {
		busy := false
		for _, ch := range m.chans {
			if !ch.gone && (ch.state == connectivity.Idle || ch.state == connectivity.Connecting) {
				busy = true
			}
		}
		if busy {
			m.probe("saturated_but_conn_pending")
			return expect{kind: "waitorplaced", allowed: set(mins...), prop: "C03", rule: "saturated-pending", facts: staleF, grow: 0,
				why: "all READY channels saturated, pool below max, a channel is idle/connecting"}
		}
		m.probe("growth_expected")
		return expect{kind: "wait", prop: "C03", rule: "saturated-must-grow-and-wait", facts: staleF, grow: 1,
			why: fmt.Sprintf("all READY channels at/above watermark %d, pool %d < max %d, nothing idle/connecting", m.cfg.wm, m.poolSize(), m.cfg.max)}
	}
	m.probe("saturated_at_max")
	return expect{kind: "placed", allowed: set(mins...), prop: "C03", rule: "at-max-not-least-loaded", facts: staleF, grow: 0,
		why: fmt.Sprintf("pool at maxSize %d, counts %v", m.cfg.max, m.counts(p.ready))}
}

//go:norace
func (m *Model) refreshFact(ch *chanM) string {
	if ch.k[0] > 0 || m.s.env.Conns[ch.cur].CreatedPhase == PhDone {
		return "|after_refresh=1"
	}
	return "|after_refresh=0"
}

//go:norace
func (m *Model) counts(chs []int) []int {
	out := make([]int, len(chs))
	for i, c := range chs {
		out[i] = m.chans[c].inflight
	}
	return out
}

//go:norace
func (m *Model) pickReturn(ev Event) {
	c := m.s.calls[ev.Call]
	cm := m.calls[ev.Call]
	if cm == nil {
		return
	}
	cm.returned = true
	cm.retSeq = ev.Seq
	cm.start = ev.At
	if c.PubIdx < 0 || c.PubIdx >= len(m.pubs) {
		return
	}
	res := c.Res
	// Which channel was it placed on?
	placedCh := -1
	if res.Kind == ResPlaced {
		ch, cn := m.chanOfConn(res.Conn)
		if m.track && ch != nil {
			// during a concurrent burst a pick may overlap the balancer callback that
			// completes a refresh of its channel and still see the old connection
			placedCh = ch.idx
		} else if ch != nil && cn.role == roleOld && m.lastSwapOld == res.Conn && (m.lastSwapEnd == 0 || m.lastSwapEnd > cm.invSeq) {
			// the pick overlapped the report that made the replacement take over
			// (FlagOverlap) and saw the connection that was current when it looked
			placedCh = ch.idx
			m.probe("pick_overlapping_takeover_got_old_connection")
		} else if ch == nil || cn.role != rolePool {
			m.v("C02", "placed-on-non-pool-connection", "", fmt.Sprintf("call %d placed on sc%d which is not the current connection of any channel", c.ID, res.Conn), ev.Op)
		} else {
			placedCh = ch.idx
		}
	}
	grew, growFail := 0, 0
	for i := c.InvokeSeq; i < len(m.s.env.Events) && i <= ev.Seq; i++ {
		e := m.s.env.Events[i]
		if e.Call == c.ID && e.Phase == PhPick {
			if e.Kind == EvNewSC {
				grew++
			}
			if e.Kind == EvNewSCFail {
				growFail++
			}
		}
	}
	if res.Kind == ResPanic {
		return
	}
	if cm.ex == nil || m.track {
		if ex := cm.exD; ex != nil && (ex.rule == "stand-in-not-reused" || ex.rule == "bound-key-not-on-home" || ex.rule == "not-least-loaded" && m.noneGone()) && ex.kind == "placed" {
			m.probe("degraded_" + map[string]string{"C08": "standin_reuse", "C01": "home_routing", "C02": "least_loaded"}[ex.prop] + "_judged")
			if res.Kind != ResPlaced || !ex.allowed[placedCh] {
				m.v(ex.prop, ex.rule, ex.facts, fmt.Sprintf("call %d %s keys=%v on the latest picker: result %s (channel %d); want channel %v: %s", c.ID, c.MethodName, c.ReqKeys, res, placedCh, keysOf(ex.allowed), ex.why), ev.Op)
			}
		}
		// structural bookkeeping only
		if m.track && cm.rr {
			m.rrBurst = append(m.rrBurst, rrPick{call: c.ID, inv: cm.invSeq, ret: ev.Seq, ch: placedCh})
		}
		if m.degraded && cm.rr && placedCh >= 0 && !(m.s != nil && m.s.plan.Concurrent && m.s.conc) && m.noneGone() && cm.rrEpoch == m.epoch {
			// degraded serial run in which every channel that was shut down has
			// rejoined (its pending replacement took over): the pool is what it was,
			// and consecutive BIND calls walk it in creation order (same epoch: the
			// composition has not changed since this pick started)
			m.probe("degraded_rr_cycle_judged")
			m.rrReturnCycle(c, cm, placedCh, ev)
		}
		if placedCh >= 0 {
			cm.ch = placedCh
			cm.placed = true
			m.chans[placedCh].inflight++
			// (an UNBIND for the key that became visible while this pick ran may have
			// completed before it looked the key up)
			if ex := cm.exD; ex != nil && ex.standIn != "" && m.chans[placedCh].state == connectivity.Ready && !m.chans[placedCh].gone {
				if _, ok := m.fb[ex.standIn]; !ok {
					m.fb[ex.standIn] = placedCh
					if len(m.fb) == 4097 {
						m.probe("more_than_4096_keys_on_stand_ins")
					}
				}
			}
			if m.track && cm.cKey != "" && cm.cSeq == m.coreSeq && m.allReady() && !m.cDropped[cm.cKey] {
				if h, ok := m.cHome[cm.cKey]; ok && h != placedCh {
					m.vAlways("C01", "bound-key-moved-without-unbind", "concurrent", fmt.Sprintf("call %d %s for key %q was placed on channel %d, an earlier call for the same key (after its BIND had completed, no UNBIND ever started, all channels READY) on channel %d", c.ID, c.MethodName, cm.cKey, placedCh, h), ev.Op)
				} else {
					m.cHome[cm.cKey] = placedCh
				}
			}
		}
		return
	}
	ex := *cm.ex
	extraMethod := c.Method >= MExtra0
	report := func(prop, rule, facts, msg string) {
		m.v(prop, rule, facts, msg, ev.Op)
		if prop == "C03" && rule == "at-max-not-least-loaded" {
			// also C02's own clause: a call that is placed is placed on a channel
			// whose stream count is minimal, above the watermark as below it
			m.v("C02", "not-least-loaded", "at-max|"+facts, msg, ev.Op)
		}
		if prop == "C01" && m.cfg.fallback && (rule == "bound-key-not-on-home" || rule == "bound-key-on-other-channel") {
			// with fallback on this is also C08's "from the moment the home channel is
			// READY again every call for the key goes back to the home channel"
			m.v("C08", "not-back-home", facts, msg, ev.Op)
		}
		if prop == "C01" || prop == "C02" {
			// C07: "the replacement takes over the channel (its bound keys, active
			// streams and position)": a routing or load violation that involves a
			// channel whose connection was refreshed is also reported there
			inv := map[int]bool{}
			if placedCh >= 0 {
				inv[placedCh] = true
			}
			for a := range ex.allowed {
				inv[a] = true
			}
			for a := 0; a < len(m.chans); a++ {
				if inv[a] && !m.chans[a].gone && m.refreshFact(m.chans[a]) == "|after_refresh=1" {
					m.v("C07", "takeover-lost-channel-state", prop, "involves channel "+fmt.Sprint(a)+" whose connection was refreshed: "+msg, ev.Op)
					break
				}
			}
		}
		if extraMethod {
			m.v("C17", "method-mapping", facts, "extra method "+c.MethodName+": "+msg, ev.Op)
		} else if c.Method == MNoAff && prop != "C04" {
			// listed in a method entry that has no affinity section: "no other method is mapped"
			m.v("C17", "method-mapping", "no-affinity-entry", "method of an entry without an affinity section: "+msg, ev.Op)
		} else if m.cfgFaulted && prop != "C04" && m.s.plan.Profile == "config" {
			m.v("C17", "config-not-fixed", facts, "after config mutation / second config: "+msg, ev.Op)
		} else if (prop == "C03" || prop == "C02") && (m.cfg.defaulted["wm"] || m.cfg.defaulted["max"]) && m.s.plan.Profile == "config" {
			m.v("C17", "defaults", facts, "defaulted wm/max: "+msg, ev.Op)
		}
	}
	desc := fmt.Sprintf("call %d %s keys=%v on pub %d(latest=%v): result %s", c.ID, c.MethodName, c.ReqKeys, c.PubIdx, c.PubIdx == len(m.pubs)-1, res)
	if res.Kind == ResTF && ex.kind != "tf" {
		report("C04", "non-tf-picker-failed-fast", "", desc+"; the picker was published with "+m.pubs[c.PubIdx].state.String())
	}
	switch ex.kind {
	case "tf":
		if res.Kind != ResTF {
			report(ex.prop, ex.rule, ex.facts, desc+"; picker was published with TRANSIENT_FAILURE")
		}
	case "notplaced":
		if res.Kind == ResPlaced {
			report(ex.prop, ex.rule, ex.facts, desc+"; "+ex.why)
		}
	case "wait":
		if res.Kind != ResWait {
			report(ex.prop, ex.rule, ex.facts, desc+"; want wait: "+ex.why)
		}
	case "placed":
		if res.Kind != ResPlaced || !ex.allowed[placedCh] {
			report(ex.prop, ex.rule, ex.facts, fmt.Sprintf("%s (channel %d); want one of channels %v: %s", desc, placedCh, keysOf(ex.allowed), ex.why))
		}
	case "placedornot":
		if res.Kind == ResPlaced && !ex.allowed[placedCh] {
			report(ex.prop, ex.rule, ex.facts, fmt.Sprintf("%s (channel %d); must not be another channel than %v: %s", desc, placedCh, keysOf(ex.allowed), ex.why))
		}
	case "waitorplaced":
		if !(res.Kind == ResWait || (res.Kind == ResPlaced && ex.allowed[placedCh])) {
			report(ex.prop, ex.rule, ex.facts, fmt.Sprintf("%s (channel %d); want wait or one of %v: %s", desc, placedCh, keysOf(ex.allowed), ex.why))
		}
	case "rr":
		m.rrReturn(c, cm, placedCh, ev)
	}
	if ex.grow == 1 && grew+growFail != 1 {
		report("C03", "saturated-pick-did-not-grow", ex.facts, fmt.Sprintf("%s; %d NewSubConn calls, want 1: %s", desc, grew+growFail, ex.why))
	}
	if ex.grow == 0 && grew+growFail > 0 {
		report("C03", "unexpected-growth", ex.facts, fmt.Sprintf("%s; created %d connection(s) although %s", desc, grew+growFail, ex.why))
	}
	if grew > 0 && res.Kind == ResPlaced {
		report("C03", "grew-and-placed", ex.facts, desc+"; a call that adds a channel must be told to wait")
	}
	if placedCh >= 0 {
		cm.ch = placedCh
		cm.placed = true
		m.chans[placedCh].inflight++
		if ex.standIn != "" && m.chans[placedCh].state == connectivity.Ready {
			if _, ok := m.fb[ex.standIn]; !ok {
				m.fb[ex.standIn] = placedCh
				if len(m.fb) == 4097 {
					m.probe("more_than_4096_keys_on_stand_ins")
				}
			}
		}
	}
}

//go:norace
func keysOf(s map[int]bool) []int {
	var o []int
	for k := range s {
		o = append(o, k)
	}
	sort.Ints(o)
	return o
}

// rrReturn checks C09 for a round-robin BIND pick.
//
//go:norace
func (m *Model) rrReturn(c *Call, cm *callM, placedCh int, ev Event) {
	if c.Res.Kind != ResPlaced || placedCh < 0 {
		m.v("C09", "rr-bind-not-assigned", "", fmt.Sprintf("round-robin BIND call %d returned %s", c.ID, c.Res), ev.Op)
		return
	}
	m.probe("rr_pick")
	ch := m.chans[placedCh]
	ctxEnded := c.CtxEnded(ev.At)
	if ch.state != connectivity.Ready && !ctxEnded {
		m.v("C09", "rr-handed-not-ready", "", fmt.Sprintf("round-robin BIND call %d was handed channel %d in state %v although its context has not ended", c.ID, placedCh, ch.state), ev.Op)
	}
	if ctxEnded && ch.state != connectivity.Ready {
		m.probe("rr_returned_on_ctx_end")
	}
	m.rrReturnCycle(c, cm, placedCh, ev)
}

// rrReturnCycle: the cyclic-order clause alone.
//
//go:norace
func (m *Model) rrReturnCycle(c *Call, cm *callM, placedCh int, ev Event) {
	n := cm.rrN
	for _, o := range m.rrSeq {
		if o.epoch != cm.rrEpoch || n == 0 {
			continue
		}
		d := cm.rrIndex - o.index
		want := ((o.ch+d)%n + n) % n
		if want != placedCh {
			m.v("C09", "rr-not-cyclic", "", fmt.Sprintf("round-robin BIND #%d got channel %d, BIND #%d got channel %d; both started while the pool had the same %d channels, the cycle requires %d", cm.rrIndex, placedCh, o.index, o.ch, n, want), ev.Op)
			break
		}
	}
	m.rrSeq = append(m.rrSeq, rrObs{index: cm.rrIndex, ch: placedCh, epoch: cm.rrEpoch})
	if len(m.rrSeq) > 12 {
		m.rrSeq = m.rrSeq[len(m.rrSeq)-12:]
	}
}

type rrBound struct{ seq, n int } // composition change: event, channels afterwards (-1: run not judged)

type rrPick struct{ call, inv, ret, ch int }

// RRBurstCheck judges the round-robin BIND picks of a concurrent burst after it
// has quiesced (C09). The pool's composition changes at known events (a channel
// is added). Between two changes, the picks that were invoked and returned
// inside that window are consecutive BIND calls over an unchanged pool: in SOME
// order consistent with real time (a pick that returned before another was
// invoked comes first) each must get the channel after its predecessor's, in
// creation order, cyclically. A pick that overlaps a change may have taken its
// turn on either side: it may be placed anywhere its interval allows, or left
// out. No such order = no linearization of the round-robin assignment.
//
//go:norace
func (m *Model) RRBurstCheck() {
	if !m.track || m.degraded || len(m.rrBurst) < 2 {
		return
	}
	for _, b := range m.rrBounds {
		if b.n < 0 {
			return
		}
	}
	const inf = int(^uint(0) >> 1)
	for w := 0; w <= len(m.rrBounds); w++ {
		lo, hi, n := -1, inf, 0
		if w > 0 {
			lo, n = m.rrBounds[w-1].seq, m.rrBounds[w-1].n
		}
		if w < len(m.rrBounds) {
			hi = m.rrBounds[w].seq
		}
		if n < 2 {
			continue
		}
		var ops []rrPick
		var must []bool
		nMust := 0
		for _, p := range m.rrBurst {
			if p.ch < 0 {
				return // a pick that was not placed: nothing to say about the cycle
			}
			in := p.inv > lo && p.ret < hi
			if !in && !(p.inv < hi && p.ret > lo) {
				continue
			}
			if !in && p.ch >= n {
				continue // took its turn after a later change
			}
			ops = append(ops, p)
			must = append(must, in)
			if in {
				nMust++
			}
		}
		if nMust < 2 {
			continue
		}
		if len(ops) > 16 {
			m.probe("rr_burst_window_too_large")
			continue
		}
		m.probe("rr_burst_window_judged")
		if len(ops) > nMust {
			m.probe("rr_burst_window_with_overlapping_pick")
		}
		full := 0
		for i := range ops {
			if must[i] {
				full |= 1 << uint(i)
			}
		}
		seen := map[int]bool{}
		var dfs func(used, last int) bool
		dfs = func(used, last int) bool {
			if used&full == full {
				return true
			}
			key := used*64 + last + 1
			if seen[key] {
				return false
			}
			seen[key] = true
			for i, x := range ops {
				if used&(1<<uint(i)) != 0 {
					continue
				}
				if last >= 0 && x.ch != (last+1)%n {
					continue
				}
				ok := true
				for j, y := range ops {
					if j == i {
						continue
					}
					if used&(1<<uint(j)) != 0 {
						if x.ret < y.inv {
							ok = false // x wholly precedes a pick already placed
						}
					} else if must[j] && y.ret < x.inv {
						ok = false // a pick that must be placed wholly precedes x
					}
				}
				if ok && dfs(used|1<<uint(i), x.ch) {
					return true
				}
			}
			return false
		}
		if !dfs(0, -1) {
			desc := ""
			for i, x := range ops {
				o := ""
				if !must[i] {
					o = " (overlaps a change of the pool)"
				}
				desc += fmt.Sprintf(" call %d [%d,%d] -> channel %d%s;", x.call, x.inv, x.ret, x.ch, o)
			}
			m.vAlways("C09", "rr-not-cyclic", "concurrent", fmt.Sprintf("round-robin BIND calls made while the pool had the same %d channels (events %d..%d) cannot be ordered, consistently with real time, so that each gets the channel after its predecessor's:%s", n, lo, hi, desc), -1)
			return
		}
	}
}

// PredictRR returns the channel a pending round-robin pick is heading for, if
// earlier observations determine it.
//
//go:norace
func (m *Model) PredictRR(cm *callM) (int, bool) {
	n := cm.rrN
	if n == 0 {
		return 0, false
	}
	for i := len(m.rrSeq) - 1; i >= 0; i-- {
		o := m.rrSeq[i]
		if o.epoch == cm.rrEpoch {
			d := cm.rrIndex - o.index
			return ((o.ch+d)%n + n) % n, true
		}
	}
	return 0, false
}

// ---------------------------------------------------------------- completions

type doneRec struct{ ch, ret int }

type donePending struct {
	must    [2]bool
	ambig   bool // the statement does not decide this completion under any reading (start == last response)
	resp    bool // counts as a response (anything but a client-side deadline)
	ch      *chanM
	call    int
	detect  bool
	fromSeq int
}

//go:norace
func (m *Model) doneInvoke(ev Event) {
	c := m.s.calls[ev.Call]
	cm := m.calls[ev.Call]
	if cm == nil || cm.ch < 0 {
		return
	}
	ch := m.chans[cm.ch]
	ch.inflight--
	if ch.inflight < 0 {
		m.v("C02", "harness-negative-count", "", "model in-flight count negative (harness bug)", ev.Op)
	}
	if mm, ok := m.cfg.methods[c.MethodName]; ok && mm.cmd == cmdBind {
		m.bindDones++
		cm.bindDone = true
		m.bindOverlap = m.bindDones > 1
	}
	now := ev.At
	isDE := c.Outcome == OutClientDE || c.Outcome == OutServerDE
	hasDL := c.HasDeadline
	clientDE := isDE && hasDL && c.Deadline <= now
	pd := &donePending{ch: ch, call: c.ID, detect: m.cfg.detect, fromSeq: ev.Seq}
	if isDE && hasDL && c.Deadline == now {
		// deadline reached exactly now: "reached" by any reading
	}
	for v := 0; v < 2; v++ {
		switch {
		case !m.cfg.detect:
			pd.must[v] = false
		case !clientDE:
			ch.lastResp[v] = now
			ch.de[v] = 0
			ch.k[v], ch.kLo[v] = 0, 0
			pd.resp = true
			if m.op != nil && m.op.swapCh == ch.idx {
				// delivered while the report that made the replacement take over is
				// still being processed: response-then-takeover (k = 1) is as legal
				// an order as takeover-then-response (k = 0)
				ch.k[v] = 1
				if v == 0 {
					m.probe("response_overlaps_takeover")
				}
			}
			pd.must[v] = false
		case cm.start < ch.lastResp[v]:
			pd.must[v] = false
		default:
			if cm.start == ch.lastResp[v] {
				pd.ambig = true // "started after the last response": equality is not decided by the statement
			}
			ch.de[v]++
			win := m.cfg.ums << uint(ch.k[v])
			if ch.de[v] >= m.cfg.ucalls && now-ch.lastResp[v] > win && !ch.refreshing {
				pd.must[v] = true
			} else if ch.kLo[v] < ch.k[v] && ch.de[v] >= m.cfg.ucalls && now-ch.lastResp[v] > m.cfg.ums<<uint(ch.kLo[v]) && !ch.refreshing {
				pd.ambig = true // due under one legal order of an overlapped response and takeover, not under the other
				m.probe("refresh_rule_undecided_after_overlap")
			}
		}
	}
	if clientDE {
		m.probe("client_deadline_completion")
	}
	if pd.must[0] != pd.must[1] {
		m.probe("refresh_rule_readings_differ")
	}
	if m.pds == nil {
		m.pds = map[int]*donePending{}
	}
	m.pds[c.ID] = pd
}

//go:norace
func (m *Model) doneReturn(ev Event) {
	c := m.s.calls[ev.Call]
	cm := m.calls[ev.Call]
	pd := m.pds[ev.Call]
	delete(m.pds, ev.Call)
	if pd != nil && m.track {
		m.doneLog = append(m.doneLog, doneRec{ch: pd.ch.idx, ret: ev.Seq})
	}
	if cm != nil && cm.bindDone {
		cm.bindDone = false
		defer func() {
			m.bindDones--
			if m.bindDones == 0 {
				m.bindOverlap = false
			}
		}()
	}
	if cm == nil || cm.ch < 0 || pd == nil {
		return
	}
	ch := pd.ch
	created, failed := 0, 0
	for i := pd.fromSeq; i <= ev.Seq && i < len(m.s.env.Events); i++ {
		e := m.s.env.Events[i]
		if e.Phase == PhDone && e.Call == c.ID {
			if e.Kind == EvNewSC {
				created++
			}
			if e.Kind == EvNewSCFail {
				failed++
			}
		}
	}
	if created+failed > 0 {
		m.probe("refresh_attempt")
	}
	if failed > 0 {
		m.probe("refresh_factory_failure")
	}
	if c.Res.Kind == ResPanic || ev.Note == "panic" {
		return
	}
	if !m.cfg.detect {
		if created+failed > 0 {
			m.v("C07", "refresh-with-detection-disabled", "", fmt.Sprintf("completion of call %d created a connection although unresponsive detection is disabled", c.ID), ev.Op)
		}
	} else if !pd.ambig {
		// The statement's "last response" has two readings (A: the takeover by a
		// replacement restarts the window and the count; B: only call completions
		// do). The code may implement either, but the same one throughout: a
		// reading contradicted once in this run stays excluded, and the property
		// is violated when a completion contradicts every reading still standing.
		facts := fmt.Sprintf("k=%d", min(ch.k[0], 3))
		did := created + failed
		if ch.k[0] >= 2 && c.Outcome == OutClientDE {
			m.probe("refresh_rule_judged_backoff_ge2")
		}
		if ch.k[0] >= 5 && c.Outcome == OutClientDE {
			m.probe("refresh_rule_judged_backoff_ge5")
		}
		standing, rule, msg := 0, "", ""
		for v := 0; v < 2; v++ {
			if m.readingOut[v] {
				continue
			}
			switch {
			case pd.must[v] && did != 1:
				m.readingOut[v] = true
				rule = "refresh-not-triggered"
				msg = fmt.Sprintf("completion of call %d on channel %d (client deadline, de=%d>=%d, since last response %v > window %v, no refresh pending) must start exactly one refresh; NewSubConn calls: %d",
					c.ID, ch.idx, ch.de[v], m.cfg.ucalls, ev.At-ch.lastResp[v], m.cfg.ums<<uint(ch.k[v]), did)
			case !pd.must[v] && did > 0:
				m.readingOut[v] = true
				rule = "refresh-not-by-rule"
				msg = fmt.Sprintf("completion of call %d (%s) on channel %d started a refresh although the rule does not hold (de=%d/%d, since last response %v, window %v, refreshing=%v, call started %v, last response %v)",
					c.ID, outcomeNames[c.Outcome], ch.idx, ch.de[v], m.cfg.ucalls, ev.At-ch.lastResp[v], m.cfg.ums<<uint(ch.k[v]), ch.refreshing, cm.start, ch.lastResp[v])
			default:
				standing++
			}
		}
		if m.readingOut[0] != m.readingOut[1] {
			m.probe("refresh_rule_reading_excluded")
		}
		if standing == 0 && rule != "" {
			if m.readingOut[0] && m.readingOut[1] && pd.must[0] != pd.must[1] {
				msg += " [the other reading of \"last response\" was contradicted earlier in this run]"
			}
			m.v("C07", rule, facts, msg, ev.Op)
		}
	}
	// Key table: successful BIND / UNBIND.
	if c.Outcome == OutOK || c.Outcome == OutRepick {
		mm := m.cfg.methods[c.MethodName]
		if !c.NoGCP && !m.cfg.ambiguous[c.MethodName] {
			switch mm.cmd {
			case cmdBind:
				rk := c.ReplyKeys
				if c.Outcome == OutRepick {
					rk = nil
				}
				keys, err := modelKeys(mm.locator, rk, c.Stream || c.Outcome == OutRepick && false)
				if c.Outcome == OutRepick {
					keys, err = modelKeysZero(mm.locator)
				}
				if c.Stream {
					keys, err = nil, fmt.Errorf("no reply on stream path")
				}
				if err == nil {
					for _, k := range keys {
						if m.track && m.cBound != nil {
							m.cBound[k] = true
							// The first BIND completion for a key, with no other BIND
							// completion overlapping it, decides the key's channel: the
							// later BOUND calls are held to THAT channel, not merely to
							// one and the same channel.
							m.cBindRet[k] = ev.Seq
							m.cBinds[k]++
							if _, had := m.cHome[k]; m.cBinds[k] == 1 && !had && m.bindDones == 1 && !m.bindOverlap {
								m.cHome[k] = cm.ch
								if m.cHomeSure == nil {
									m.cHomeSure = map[string]bool{}
								}
								m.cHomeSure[k] = true
								m.probe("concurrent_home_fixed_by_bind")
							}
						}
						if _, ok := m.keys[k]; !ok {
							m.keys[k] = cm.ch
							ch.keys++
							m.probe("key_bound")
						} else {
							m.probe("rebind_of_bound_key")
						}
					}
				}
			case cmdUnbind:
				keys, err := modelKeys(mm.locator, c.ReqKeys, c.NilMsg)
				if err == nil && len(keys) > 0 && m.track && m.cUnbindInv != nil {
					m.cUnbindInv[keys[0]] = pd.fromSeq
				}
				if err == nil && len(keys) > 0 {
					if h, ok := m.keys[keys[0]]; ok {
						delete(m.keys, keys[0])
						delete(m.fb, keys[0])
						m.chans[h].keys--
						m.probe("key_unbound")
					}
				}
			}
		}
	}
	m.stateHash()
}

// NextBoundary returns how long until the unresponsive window of channel idx
// ends (reading A), for boundary-biased clock advances.
//
//go:norace
func (m *Model) NextBoundary(sel int, now time.Duration) (time.Duration, bool) {
	if len(m.chans) == 0 || !m.cfg.detect {
		return 0, false
	}
	ch := m.chans[sel%len(m.chans)]
	end := ch.lastResp[0] + m.cfg.ums<<uint(ch.k[0])
	if end <= now {
		return 0, false
	}
	return end - now, true
}

// modelKeys computes, from the statement of key extraction, the keys a message
// built from ks carries at the locator.
//
//go:norace
func modelKeys(locator string, ks []string, nilMsg bool) ([]string, error) {
	if nilMsg {
		return nil, fmt.Errorf("nil message")
	}
	switch locator {
	case "name":
		if len(ks) == 0 {
			return []string{""}, nil
		}
		return []string{ks[0]}, nil
	case "nested.name":
		if len(ks) == 0 {
			return nil, fmt.Errorf("nil nested message")
		}
		return []string{ks[0]}, nil
	case "names", "items.name":
		return append([]string{}, ks...), nil
	}
	return nil, fmt.Errorf("locator %q does not resolve to strings", locator)
}

//go:norace
func modelKeysZero(locator string) ([]string, error) {
	switch locator {
	case "name":
		return []string{""}, nil
	case "nested.name":
		return nil, fmt.Errorf("nil nested message")
	case "names", "items.name":
		return []string{}, nil
	}
	return nil, fmt.Errorf("bad locator")
}
