package poolsim

import (
	"context"
	"errors"
	"fmt"
	"reflect"
	"strings"
	"testing"
	"time"

	"google.golang.org/grpc"
	"google.golang.org/grpc/attributes"
	"google.golang.org/grpc/balancer"
	"google.golang.org/grpc/codes"
	"google.golang.org/grpc/connectivity"
	"google.golang.org/grpc/metadata"
	"google.golang.org/grpc/resolver"
	"google.golang.org/grpc/serviceconfig"
	"google.golang.org/grpc/status"
	"google.golang.org/protobuf/encoding/protojson"
	"google.golang.org/protobuf/proto"

	"github.com/GoogleCloudPlatform/grpc-gcp-go/grpcgcp"
	pb "github.com/GoogleCloudPlatform/grpc-gcp-go/grpcgcp/grpc_gcp"

	v2 "verif.local/sim/poolsim/v2"
	"verif.local/sim/simkit"
	"verif.local/vsync/kern"
)

type ResKind int

const (
	ResNone ResKind = iota
	ResPlaced
	ResWait
	ResTF
	ResErr
	ResPanic
)

type PickRes struct {
	Kind ResKind
	Conn int
	Err  string
}

//go:norace
func (r PickRes) String() string {
	switch r.Kind {
	case ResPlaced:
		return fmt.Sprintf("placed on sc%d", r.Conn)
	case ResWait:
		return "wait (no channel available)"
	case ResTF:
		return "transient-failure error"
	case ResErr:
		return "error: " + r.Err
	case ResPanic:
		return "panic: " + r.Err
	}
	return "none"
}

var outcomeNames = [...]string{"ok", "app-error", "client-deadline", "server-deadline", "other-deadline", "cancelled", "repick"}

// Messages used as requests and replies (plain Go structs: the library reads
// them by reflection along the configured path).
//
// Inner, Item and MsgB carry the struct tags protoc-gen-go writes (proto2 style:
// "name=" is the last item; proto3 style: ",proto3" follows; with and without a
// json= item): generated messages are what applications really pass. The proto
// names equal the lower-cased Go names, so a library that resolved locators by
// proto name would find the same fields.
type Inner struct {
	Name string `protobuf:"bytes,1,opt,name=name" json:"name,omitempty"`
	Num  int32  `protobuf:"varint,2,opt,name=num,proto3" json:"num,omitempty"`
}
type Item struct {
	Name string `protobuf:"bytes,1,req,name=name"`
}
type Msg struct {
	Name   string   `protobuf:"bytes,1,opt,name=name,proto3" json:"name,omitempty"`
	Ключ   string   // plan.UniField: the key field "name" is called "ключ" (locators and Go field names are not ASCII-only)
	Nested *Inner   `protobuf:"bytes,2,opt,name=nested"`
	Names  []string `protobuf:"bytes,3,rep,name=names"`
	Items  []*Item  `protobuf:"bytes,4,rep,name=items,proto3" json:"items,omitempty"`
	Num    int32    `protobuf:"varint,5,opt,name=num"`
}

// MsgB has the fields of Msg in another order: two methods listed in ONE
// configuration entry may well use differently laid-out message types.
type MsgB struct {
	Num    int32    `protobuf:"varint,6,opt,name=num"`
	Items  []*Item  `protobuf:"bytes,5,rep,name=items" json:"items,omitempty"`
	Names  []string `protobuf:"bytes,4,rep,name=names,proto3" json:"names,omitempty"`
	Nested *Inner   `protobuf:"bytes,3,opt,name=nested,json=nestedMessage"`
	Pad    string   `protobuf:"bytes,7,opt,name=pad,def=x"`
	Name   string   `protobuf:"bytes,1,opt,name=name"`
	Ключ   string
}

// MsgE promotes its key fields from an embedded struct pointer (nil in the
// messages the harness sends); MsgN declares them with named string types.
type MsgE struct {
	*Inner
	Num int32
}

type KeyName string
type KeyNames []KeyName

type MsgN struct {
	Name   KeyName
	Ключ   KeyName
	Names  KeyNames
	Nested *Inner
	Items  []*Item
	Num    int32
}

// usesMsgB: which methods use the second layout (one of the extra methods, so
// that an extra entry listing two names mixes both layouts).
//
//go:norace
func usesMsgB(method int) bool { return method == MExtra0+1 }

// usesMsgN: the third extra method's messages declare their key fields with
// named string types (kind string, type not string; a named slice of them).
//
//go:norace
func usesMsgN(method int) bool { return method == MExtra0+2 }

//go:norace
func buildMsgFor(method, loc int, keys []string) interface{} {
	m := buildMsg(loc, keys)
	if usesMsgN(method) {
		n := &MsgN{Name: KeyName(m.Name), Ключ: KeyName(m.Ключ), Nested: m.Nested, Items: m.Items, Num: m.Num}
		for _, k := range m.Names {
			n.Names = append(n.Names, KeyName(k))
		}
		return n
	}
	if !usesMsgB(method) {
		return m
	}
	return &MsgB{Num: m.Num, Items: m.Items, Names: m.Names, Nested: m.Nested, Pad: "not-a-key", Name: m.Name, Ключ: m.Ключ}
}

//go:norace
func emptyMsgFor(method int) interface{} {
	if usesMsgN(method) {
		return &MsgN{}
	}
	if usesMsgB(method) {
		return &MsgB{}
	}
	return &Msg{}
}

//go:norace
func buildMsg(loc int, keys []string) *Msg {
	m := &Msg{Num: 7}
	switch loc {
	case 1:
		if len(keys) > 0 {
			m.Nested = &Inner{Name: keys[0]}
		}
	case 2:
		m.Names = append([]string{}, keys...)
	case 3:
		for _, k := range keys {
			m.Items = append(m.Items, &Item{Name: k})
		}
	default:
		if len(keys) > 0 {
			if uniField {
				m.Ключ = keys[0]
			} else {
				m.Name = keys[0]
			}
		}
	}
	return m
}

// uniField: the current run calls the top-level key field "ключ" (plain memory:
// a worker executes one run at a time and sets it before the run's first task).
var uniField bool

//go:norace
func fillMsg(dst *Msg, src *Msg) { *dst = *src }

// dynSeq numbers the message types made at run time (process-wide).
var dynSeq int

// newDynType makes a struct type no earlier run of this process has used: the
// fields of Msg plus one uniquely named field. Whatever the library keeps per
// message type for the lifetime of the process (a cache of field lookups, ...)
// meets its first use of the type in every such run - and its first concurrent
// use in concurrent ones - not only once per worker process.
//
//go:norace
func newDynType() reflect.Type {
	dynSeq++
	return reflect.StructOf([]reflect.StructField{
		{Name: "Name", Type: reflect.TypeOf("")},
		{Name: "Ключ", Type: reflect.TypeOf("")},
		{Name: "Nested", Type: reflect.TypeOf((*Inner)(nil))},
		{Name: "Names", Type: reflect.TypeOf([]string(nil))},
		{Name: "Items", Type: reflect.TypeOf([]*Item(nil))},
		{Name: "Num", Type: reflect.TypeOf(int32(0))},
		{Name: fmt.Sprintf("U%d", dynSeq), Type: reflect.TypeOf(int8(0))},
	})
}

// dynMsg builds a message of the run's own type (pointer to struct) carrying keys.
//
//go:norace
func dynMsg(t reflect.Type, loc int, keys []string) interface{} {
	src := buildMsg(loc, keys)
	v := reflect.New(t)
	fillDyn(v.Interface(), src)
	return v.Interface()
}

//go:norace
func fillDyn(dst interface{}, src *Msg) {
	e := reflect.ValueOf(dst).Elem()
	e.FieldByName("Name").SetString(src.Name)
	e.FieldByName("Ключ").SetString(src.Ключ)
	e.FieldByName("Nested").Set(reflect.ValueOf(src.Nested))
	e.FieldByName("Names").Set(reflect.ValueOf(src.Names))
	e.FieldByName("Items").Set(reflect.ValueOf(src.Items))
	e.FieldByName("Num").SetInt(int64(src.Num))
}

// Call is one RPC issued by the harness.
type Call struct {
	ID           int
	Op           int
	Method       int
	MethodName   string
	ReqKeys      []string
	ReplyKeys    []string
	NoGCP        bool
	Stream       bool
	NilMsg       bool
	Age          int
	PubIdx       int
	HasDeadline  bool
	Deadline     time.Duration
	CancelledAt  time.Duration
	WasCancelled bool
	ctx          context.Context
	cancel       context.CancelFunc
	Res          PickRes
	done         func(balancer.DoneInfo)
	InvokeSeq    int
	waiter       kern.Waiter
	Outcome      int
	tag          *TaskTag
	InFlight     bool
	Invoked      bool
	Returned     bool
	Completed    bool
	task         *kern.Task
	req, reply   interface{}
	// what was actually handed to the interceptor (C12: the picker must find
	// exactly these in the call context)
	sentReq, sentReply interface{}
	dyn                bool    // request and reply are of the run's own message type
	lag                *reqCtx // the call runs under the application's shared request context
	retry              bool    // FlagRetry
	attempt            int
	repick             bool // FlagRepick
	pendingRepick      bool
	released, abandon  bool
	repickW            kern.Waiter
	RepickOf           int  // the call this pick repeats (-1: a first pick)
	Chained            bool // the caller's context derives from an earlier intercepted call's context
	peekBad            string
}

// reqCtx is a request-scoped context of the application: a deadline shared by
// several calls. Like a real context.WithDeadline its Done channel closes a
// little after the deadline instant (there a timer goroutine has to run first;
// here the harness cancels it at an operation boundary after the deadline), so a
// call can be started with a context whose deadline has passed and which is not
// done yet.
type reqCtx struct {
	context.Context
	dl        time.Time
	deadline  time.Duration // simulated time
	cancel    context.CancelFunc
	cancelled bool
	spared    bool // one call was started after the deadline, before the cancellation
	at        time.Duration
}

//go:norace
func (r *reqCtx) Deadline() (time.Time, bool) { return r.dl, true }

//go:norace
func (c *Call) CtxEnded(at time.Duration) bool {
	if c.lag != nil {
		return c.lag.cancelled && c.lag.at <= at
	}
	return (c.WasCancelled && c.CancelledAt <= at) || (c.HasDeadline && c.Deadline <= at)
}

type methodEntry struct {
	unknownCmd bool // the entry's command is a number the enum does not define: what it maps to is unspecified
	names      []string
	cmd        int
	locator    string
	hasAff     bool
}

// Sim is one simulated run of the pool.
type Sim struct {
	plan  *Plan
	src   *simkit.Source
	k     *kern.Kernel
	env   *Env
	cc    *FakeCC
	bal   balancer.Balancer
	calls []*Call
	model *Model
	res   *simkit.Result

	callerCfg                   *grpcgcp.GCPBalancerConfig
	cfgSnap                     *pb.ApiConfig
	cfg2                        *grpcgcp.GCPBalancerConfig
	drained                     int
	opIdx                       int
	coreQueued                  int
	healing                     bool
	markOK                      bool
	markSeq                     int
	markCalls                   int
	markLoad                    []int
	lastCallCtx                 context.Context
	degraded                    bool // a SHUTDOWN for a live pool connection was delivered: crash/progress oracles only
	overlap                     bool // the operation just started was left running (FlagOverlap): no quiescence checks before the next one
	overlapOpen                 bool // operations were left running and the one that ends the overlap has not been executed yet
	resolverSent                bool
	keySeq                      uint64
	conc                        bool // currently executing concurrently (burst); false in serial plans and after the burst
	stop                        bool
	addrSets                    [][]resolver.Address
	nConnErr                    int
	twinBal                     balancer.Balancer // plan.TwinStart: a second balancer configured from the same JSON
	twinCC                      *FakeCC
	twinCfg                     serviceconfig.LoadBalancingConfig
	twinSent                    bool
	dynT                        reflect.Type // plan.DynMsg: message type made for this run
	nRepicks                    int
	nRetries                    int
	nStreamRetries, nHalfClosed int
	req                         *reqCtx  // the application's current request-scoped context
	burstBound                  []string // keys the concurrent burst certainly bound (enterSerial)
	addrMaster                  []resolver.Address
	addrWin                     [][2]int
	addrWant                    []string
	Opts                        Options
}

// Options of a run that are not part of the plan.
type Options struct {
	Log       bool
	Heal      bool
	WantProps map[string]bool // nil = all
}

//go:norace
func (s *Sim) methodEntries() []methodEntry {
	loc := locators[s.plan.Cfg.Locator%len(locators)]
	es := []methodEntry{
		{names: []string{methodNames[MBind]}, cmd: cmdBind, locator: loc, hasAff: true},
		{names: []string{methodNames[MBound]}, cmd: cmdBound, locator: loc, hasAff: true},
		{names: []string{methodNames[MUnbind]}, cmd: cmdUnbind, locator: loc, hasAff: true},
		{names: []string{methodNames[MNoAff]}, hasAff: false},
	}
	for _, x := range s.plan.Cfg.Extra {
		e := methodEntry{cmd: []int{cmdBound, cmdBind, cmdUnbind}[x.Cmd%3], locator: loc, hasAff: x.HasAff, unknownCmd: x.Cmd == 3 && x.HasAff}
		for _, n := range x.Names {
			e.names = append(e.names, methodNames[MExtra0+n%3])
		}
		es = append(es, e)
	}
	return es
}

//go:norace
func (s *Sim) buildAPIConfig() *pb.ApiConfig {
	c := s.plan.Cfg
	api := &pb.ApiConfig{}
	if !c.NilPool {
		api.ChannelPool = &pb.ChannelPoolConfig{
			MinSize: c.Min, MaxSize: c.Max, MaxConcurrentStreamsLowWatermark: c.WM,
			FallbackToReady: c.Fallback, UnresponsiveCalls: c.UCalls, UnresponsiveDetectionMs: c.UMs, IdleTimeout: c.Idle,
		}
		if c.RR {
			api.ChannelPool.BindPickStrategy = pb.ChannelPoolConfig_ROUND_ROBIN
		} else if c.OddStrategy {
			// a strategy number the enum does not define: not ROUND_ROBIN
			api.ChannelPool.BindPickStrategy = pb.ChannelPoolConfig_BindPickStrategy(5)
		} else if c.Min%2 == 1 {
			api.ChannelPool.BindPickStrategy = pb.ChannelPoolConfig_LEAST_ACTIVE_STREAMS // named explicitly
		}
	}
	for _, e := range s.methodEntries() {
		mc := &pb.MethodConfig{Name: append([]string{}, e.names...)}
		if e.hasAff {
			cmd := pb.AffinityConfig_BOUND
			switch e.cmd {
			case cmdBind:
				cmd = pb.AffinityConfig_BIND
			case cmdUnbind:
				cmd = pb.AffinityConfig_UNBIND
			}
			if e.unknownCmd {
				cmd = pb.AffinityConfig_Command(7)
			}
			loc := e.locator
			if s.plan.UniField && loc == "name" {
				loc = "ключ"
			}
			mc.Affinity = &pb.AffinityConfig{Command: cmd, AffinityKey: loc}
		}
		api.Method = append(api.Method, mc)
	}
	return api
}

//go:norace
func keyName(i int) string { return fmt.Sprintf("k%d", i) }

// oddKeyName: affinity keys are opaque strings. Distinct for distinct i, and
// built to collide under anything but exact string comparison: one is a prefix
// of another, they differ in case / trailing space / NUL only, contain list and
// path separators and non-ASCII characters, one is 300 bytes long.
//
//go:norace
func oddKeyName(i int) string {
	switch i % 8 {
	case 0:
		return fmt.Sprintf("projects/p/instances/i/databases/d/sessions/%d", i)
	case 1:
		return fmt.Sprintf("projects/p/instances/i/databases/d/sessions/%d ", i-1) // key i-1 plus a space
	case 2:
		return fmt.Sprintf("K%d,k%d;%d", i, i, i)
	case 3:
		return fmt.Sprintf("k%d,K%d;%d", i-1, i-1, i-1) // key i-1 in the other case
	case 4:
		return fmt.Sprintf("k\x00%d", i)
	case 5:
		return fmt.Sprintf("schl\u00fcssel-\u4e16\u754c.%d", i)
	case 6:
		return fmt.Sprintf("%0300d", i)
	}
	return fmt.Sprintf("%0300d.", i-1) // key i-1 plus a dot
}

// hashKeyNames: keys 0/1 collide under 32-bit FNV-1a, 2/3 under Java's
// s[0]*31^(n-1)+... (and so under every hash of that family), 4/5 under 32-bit
// FNV-1a again (session-like names). Affinity keys are compared as strings.
var hashKeyNames = []string{"costarring", "liquid", "Aa", "BB", "declinate", "macallums"}

//go:norace
func (s *Sim) keyNames(is []int) []string {
	out := make([]string, len(is))
	for i, x := range is {
		if s.plan.OddKeys {
			out[i] = oddKeyName(x)
		} else if s.plan.HashKeys && x >= 0 && x < len(hashKeyNames) {
			out[i] = hashKeyNames[x]
		} else {
			out[i] = keyName(x)
		}
	}
	return out
}

var (
	badServiceConfig = &serviceconfig.ParseResult{Err: errors.New("service config: invalid character 'x' looking for beginning of value")}
	resolverAttrs    = attributes.New("resolver", "attrs")
)

// connErrs: what gRPC puts into SubConnState.ConnectionError with a
// TRANSIENT_FAILURE report (built at package initialisation: see streamsim's
// creationErrTable for why nothing is allocated on a task).
var connErrs = []error{
	errors.New("connection error: desc = \"transport: Error while dialing: dial tcp: connection refused\""),
	errors.New("connection error: desc = \"transport: Error while dialing: dial tcp: i/o timeout\""),
	fmt.Errorf("connection error: %w", context.DeadlineExceeded),
	errors.New("connection error: desc = \"transport: authentication handshake failed\""),
}

// connState: the state report as gRPC delivers it. No statement mentions the
// connection error; it varies (absent, repeated, different from the last one).
//
//go:norace
func (s *Sim) connState(id int, st connectivity.State) balancer.SubConnState {
	scs := balancer.SubConnState{ConnectivityState: st}
	if st == connectivity.TransientFailure {
		s.nConnErr++
		if s.nConnErr%4 != 0 {
			scs.ConnectionError = connErrs[(s.nConnErr/2+id)%len(connErrs)]
		}
	}
	return scs
}

// initAddrs: the lists the resolver delivers. 0-2 as ever; 3 three addresses; 4
// forty-five addresses; 5 the last forty-four of them; 6 and 7 lists 1 and 3 in another
// order; 8 one address that differs from list 0 in its server name, attributes
// and (non-comparable) metadata only. With plan.SharedAddrs lists 0-5 are
// windows into one array the resolver owns and keeps (a shorter list has the
// longer ones in its spare capacity: a library that appends to a list it was
// given writes into the next one); otherwise every update passes a copy of its
// own, exactly as long as the list.
//
//go:norace
func (s *Sim) initAddrs() {
	m := []resolver.Address{{Addr: "a:1"}, {Addr: "b:2"}, {Addr: "c:3"}}
	for i := 3; i < 45; i++ {
		m = append(m, resolver.Address{Addr: fmt.Sprintf("h%d:%d", i, i)})
	}
	s.addrMaster = make([]resolver.Address, len(m), len(m)+4)
	for i := range m {
		s.addrMaster[i] = m[i]
	}
	s.addrSets = [][]resolver.Address{m[0:1], m[0:2], m[2:3], m[0:3], m[0:45], m[1:45], {m[1], m[0]}, {m[2], m[0], m[1]}, {{Addr: "a:1", ServerName: "other.example", Attributes: attributes.New("zone", "z1"), BalancerAttributes: attributes.New("w", 3), Metadata: []string{"not", "comparable"}}}}
	s.addrWin = [][2]int{{0, 1}, {0, 2}, {2, 3}, {0, 3}, {0, 45}, {1, 45}}
	for _, a := range s.addrSets {
		s.addrWant = append(s.addrWant, addrsString(a))
	}
}

// resolved returns the list to hand to the balancer and what it says.
//
//go:norace
func (s *Sim) resolved(a int) ([]resolver.Address, string) {
	i := a % len(s.addrSets)
	if i >= 3 {
		s.res.Count(fmt.Sprintf("fault:resolver_list_kind_%d", i), 1)
	}
	if s.plan.SharedAddrs && i < len(s.addrWin) {
		s.res.Count("fault:resolver_lists_share_one_array", 1)
		w := s.addrWin[i]
		return s.addrMaster[w[0]:w[1]], s.addrWant[i]
	}
	out := make([]resolver.Address, len(s.addrSets[i]))
	for j := range out {
		out[j] = s.addrSets[i][j]
	}
	return out, s.addrWant[i]
}

// Run executes the plan under the kernel inside a synctest bubble.
//
//go:norace
func Run(t *testing.T, plan *Plan, src *simkit.Source, opts Options) *simkit.Result {
	res := &simkit.Result{}
	simkit.SetVerbose(plan.Verbose)
	defer simkit.SetVerbose(false)
	uniField = plan.UniField
	defer func() { uniField = false }()
	if plan.Verbose {
		res.Count("fault:verbose_logging", 1)
	}
	h := simkit.Bubble(t, func() {
		s := &Sim{plan: plan, src: src, res: res, Opts: opts}
		s.run()
	})
	if h != "" && res.Harness == "" {
		stuck := false
		for _, v := range res.Violations {
			stuck = stuck || v.Rule == "blocked-holding-lock"
		}
		// a library goroutine stuck for good in a real blocking operation cannot be
		// torn down: the bubble's complaint about it is the reported violation's
		// consequence, not harness trouble
		if !(stuck && strings.Contains(h, "blocked goroutines remain")) {
			res.Harness = h
		}
	}
	res.Tape = src.Recorded()
	return res
}

//go:norace
func (s *Sim) vio(prop, rule, facts, msg string) {
	sig := prop + "|" + rule
	if facts != "" {
		sig += "|" + facts
	}
	s.res.Violations = append(s.res.Violations, simkit.Violation{Property: prop, Rule: rule, Sig: sig, Msg: msg, Op: s.opIdx})
	s.k.Logf("VIOLATION %s %s", sig, msg)
}

//go:norace
func (s *Sim) run() {
	k := kern.New(s.src)
	k.LogOn = s.Opts.Log
	k.OpYields = 4000
	k.MaxSteps = 300000
	if s.plan.MassKeys {
		k.MaxSteps = 6000000 // more than eight thousand calls
		k.OpYields = 1 << 20 // one callback walks tens of thousands of keys: not a spin
	}
	if s.plan.Cfg.Max > 100 && s.plan.Cfg.Max < 1000 {
		k.MaxSteps = 4000000 // every pick reads the stream count of every channel (a yield point each)
	}
	s.k = k
	s.env = NewEnv(k)
	if s.plan.SlowCC && !s.plan.Concurrent {
		s.env.SlowRemove = 250 * time.Millisecond
	}
	s.cc = &FakeCC{env: s.env}
	k.Install()
	defer k.Uninstall()
	s.conc = s.plan.Concurrent
	s.model = NewModel(s)
	s.model.track = s.conc // concurrent burst: structural tracking only, no verdicts
	s.initAddrs()
	if s.plan.DynMsg {
		s.dynT = newDynType()
		s.res.Count("fault:message_type_never_seen_by_the_process", 1)
	}

	// C17: the configuration reaches the balancer the way gRPC delivers it:
	// rendered as JSON, parsed by the registered builder's ParseConfig.
	builder := balancer.Get(grpcgcp.Name)
	if builder == nil {
		s.res.Harness = "balancer grpc_gcp not registered"
		return
	}
	api := s.buildAPIConfig()
	js, err := protojson.Marshal(api)
	if err != nil {
		s.res.Harness = "marshal config: " + err.Error()
		return
	}
	if v := sameLengthVariant(js); v != nil && len(js)%2 == 0 {
		// The caller's buffer held another configuration text of the same length a
		// moment ago (a reused read buffer) and went through the parser with it:
		// the text it holds NOW is what counts.
		buf := append([]byte(nil), v...)
		_, _ = builder.(balancer.ConfigParser).ParseConfig(buf)
		copy(buf, js)
		js = buf
		s.res.Count("fault:config_text_parsed_from_a_reused_buffer", 1)
	}
	parsed, err := builder.(balancer.ConfigParser).ParseConfig(js)
	if err != nil {
		s.vio("C17", "parse-rejects-wellformed", "", fmt.Sprintf("ParseConfig rejected %s: %v", js, err))
		return
	}
	gc, ok := parsed.(*grpcgcp.GCPBalancerConfig)
	if !ok || gc.ApiConfig == nil {
		s.vio("C17", "parse-type", "", fmt.Sprintf("ParseConfig returned %T", parsed))
		return
	}
	if !proto.Equal(gc.ApiConfig, api) {
		s.vio("C17", "parse-roundtrip", "", fmt.Sprintf("ParseConfig(%s) = %v, want %v", js, gc.ApiConfig, api))
	}
	s.callerCfg = gc
	s.cfgSnap = proto.Clone(gc.ApiConfig).(*pb.ApiConfig)
	// A different configuration for later resolver updates (must be ignored).
	api2 := proto.Clone(api).(*pb.ApiConfig)
	if api2.ChannelPool == nil {
		api2.ChannelPool = &pb.ChannelPoolConfig{}
	}
	api2.ChannelPool.MaxSize = 7
	api2.ChannelPool.MinSize = 5
	api2.ChannelPool.MaxConcurrentStreamsLowWatermark = 50
	api2.ChannelPool.FallbackToReady = !api2.ChannelPool.FallbackToReady
	if api2.ChannelPool.UnresponsiveDetectionMs > 0 && api2.ChannelPool.UnresponsiveCalls > 0 {
		api2.ChannelPool.UnresponsiveDetectionMs, api2.ChannelPool.UnresponsiveCalls = 0, 0
	} else {
		api2.ChannelPool.UnresponsiveDetectionMs, api2.ChannelPool.UnresponsiveCalls = 10, 1
	}
	if api2.ChannelPool.BindPickStrategy == pb.ChannelPoolConfig_ROUND_ROBIN {
		api2.ChannelPool.BindPickStrategy = pb.ChannelPoolConfig_LEAST_ACTIVE_STREAMS
	} else {
		api2.ChannelPool.BindPickStrategy = pb.ChannelPoolConfig_ROUND_ROBIN
	}
	api2.Method = nil
	s.cfg2 = &grpcgcp.GCPBalancerConfig{ApiConfig: api2}

	s.src.Segment(0)
	s.opIdx = -1
	s.spawnCore(-1, "build", -1, 0, "", func() {
		s.bal = builder.Build(s.cc, balancer.BuildOptions{})
	})
	s.settle()
	if s.plan.TwinStart && s.conc && s.callerCfg != nil {
		// Another channel of the process uses the very same service config text: a
		// second balancer, built by the same builder, whose configuration object is
		// what ParseConfig returns for the same JSON. Its first resolver update runs
		// on its own serializer goroutine, concurrently with the first balancer's.
		if p2, err := builder.(balancer.ConfigParser).ParseConfig(js); err == nil {
			s.twinCfg = p2
			env2 := NewEnv(s.k)
			s.twinCC = &FakeCC{env: env2}
			s.k.Spawn("core2:build", 2, &TaskTag{Op: -1, Phase: PhCore, Call: -1}, func() {
				s.guard(func() { s.twinBal = builder.Build(s.twinCC, balancer.BuildOptions{}) })
			})
			s.settle()
			s.res.Count("fault:second_balancer_with_the_same_config_text", 1)
		}
	}

	for i := range s.plan.Ops {
		if s.stop || k.Aborting() {
			break
		}
		s.opIdx = i
		s.src.Segment(i + 1)
		s.exec(i, s.plan.Ops[i])
		if s.overlap {
			// not quiescent on purpose: the next operation finishes both
			s.overlap = false
			s.overlapOpen = true
			s.drain()
			continue
		}
		s.waitSlowCC()
		if s.overlapOpen {
			// (the connection report may have turned out to be no event at all:
			// whatever was left running runs to the end before anything is judged)
			s.overlapOpen = false
			s.k.Quiesce()
		}
		s.afterOp()
	}
	if !s.stop && !k.Aborting() && s.Opts.Heal {
		s.opIdx = len(s.plan.Ops)
		s.src.Segment(len(s.plan.Ops) + 1)
		if s.plan.CloseEnd && !s.plan.Concurrent {
			s.closePhase()
		} else {
			s.heal()
		}
		if !s.stop && !k.Aborting() && s.plan.Second {
			s.secondBalancer(builder)
		}
	}
	s.finish()
}

// secondBalancer: the application edits its configuration object in place (one
// more channel at start) and uses the same object for a second channel: a new
// balancer, built by the same builder, whose first resolver update carries it.
// The configuration of a balancer is fixed by ITS first update (C17): the second
// pool starts with the size the object says now, the first one is not affected
// (the routing probes of finish() still run against it).
//
//go:norace
func (s *Sim) secondBalancer(builder balancer.Builder) {
	if s.callerCfg == nil || s.callerCfg.ApiConfig == nil || s.cfgSnap == nil || s.cfgFaulted() {
		return
	}
	api := s.callerCfg.ApiConfig
	if api.ChannelPool == nil {
		api.ChannelPool = &pb.ChannelPoolConfig{}
	}
	oldMin := int(api.ChannelPool.MinSize)
	if oldMin == 0 {
		oldMin = 1
	}
	newMin := oldMin + 1
	api.ChannelPool.MinSize = uint32(newMin)
	if m := api.ChannelPool.MaxSize; m == 0 && newMin > 4 || m != 0 && int(m) < newMin {
		api.ChannelPool.MaxSize = uint32(newMin)
	}
	s.cfgSnap = proto.Clone(api).(*pb.ApiConfig) // the caller's own edit
	env2 := NewEnv(s.k)
	cc2 := &FakeCC{env: env2}
	var b2 balancer.Balancer
	addrs, _ := s.resolved(0)
	tag := &TaskTag{Op: s.opIdx, Phase: PhCore, Call: -1}
	note := ""
	s.k.Spawn("core2:second-balancer", 1, tag, func() {
		note = s.guard(func() {
			b2 = builder.Build(cc2, balancer.BuildOptions{})
			b2.UpdateClientConnState(balancer.ClientConnState{ResolverState: resolver.State{Addresses: addrs}, BalancerConfig: s.callerCfg})
		})
	})
	s.k.Quiesce()
	s.afterOp()
	s.res.Count("fault:config_object_edited_and_reused_for_a_second_balancer", 1)
	if s.stop || note != "" {
		return
	}
	if n := len(env2.Conns); n != newMin {
		s.vio("C17", "second-balancer-stale-config", "", fmt.Sprintf("a second balancer whose first resolver update carried the caller's configuration object (minSize edited in place from %d to %d after the first balancer had taken its configuration) created %d connections, want %d", oldMin, newMin, n, newMin))
		return
	}
	// Both balancers are alive (two channels of one process): the first one goes
	// on working by its own state - a few more calls, judged by the model as ever
	// (round-robin BIND calls when that is the strategy: they walk the channel
	// list, which is the first balancer's own).
	if !s.degraded && s.bal != nil && len(s.env.Pubs) > 0 {
		n := s.model.poolSize() + 1
		if n > 6 {
			n = 6
		}
		for j := 0; j < n && !s.stop; j++ {
			m := MPlain
			if s.model.cfg.rr {
				m = MBind
			}
			q := s.probeCall(s.opIdx, m, nil)
			s.res.Count("probe:first_balancer_called_while_second_alive", 1)
			if s.stop {
				return
			}
			if q.InFlight {
				s.finishCall(s.opIdx, q, OutAppErr, nil)
				s.k.Quiesce()
				s.afterOp()
			}
		}
		if s.stop {
			return
		}
	}
	s.k.Spawn("core2:close", 1, tag, func() { s.guard(func() { b2.Close() }) })
	s.k.Quiesce()
	s.afterOp()
}

// cfgFaulted: the run used a second configuration or mutated the object itself
// (those faults have their own checks).
//
//go:norace
func (s *Sim) cfgFaulted() bool { return s.model.cfgFaulted || s.plan.Cfg.NilCfg || s.plan.Cfg.NilPool }

// settle runs to quiescence in serial mode, or the operation's step budget in
// concurrent mode.
//
//go:norace
func (s *Sim) settle() { s.k.Quiesce() }

//go:norace
func (s *Sim) afterOp() {
	s.drain()
	for _, c := range s.calls {
		if c.peekBad != "" && !s.stop {
			facts := "unary"
			if c.Stream {
				facts = "stream"
			}
			if c.Chained {
				facts += "|chained-ctx"
			}
			s.vio("C12", "picker-context-wrong", facts, fmt.Sprintf("call %d %s: %s (the interceptor must hand this call's own request%s to the picker)", c.ID, c.MethodName, c.peekBad, map[bool]string{true: " - the first message sent", false: " and reply objects"}[c.Stream]))
			c.peekBad = ""
			s.stop = true
		}
	}
	s.checkKernel()
	if !s.conc {
		s.checkQuiescent()
	} else if !s.stop && !s.k.HasRunnable() {
		s.checkDeadlock()
	}
}

// checkDeadlock: nothing is runnable (any schedule): a task still blocked on a
// lock can never proceed - a lock cycle, or a lock held by a task that waits for
// something else.
//
// checkStuck: everything has quiesced and a task sits in a real blocking
// operation (a channel operation the kernel does not own, a WaitGroup, ...)
// while it holds a lock of the library: nothing the harness does can wake it,
// and everybody who needs that lock waits with it (C06).
//
//go:norace
func (s *Sim) checkStuck() {
	if s.stop {
		return
	}
	for _, t := range s.k.Blocked(kern.BlockedReal) {
		if held := t.HeldLocks(); len(held) > 0 {
			s.vio("C06", "blocked-holding-lock", "", fmt.Sprintf("%s is blocked in an operation outside the library's locks while holding %v (last seen at %s)", t.Name, held, t.Site))
			s.stop = true
			return
		}
	}
}

//go:norace
func (s *Sim) checkDeadlock() {
	s.checkStuck()
	if s.stop {
		return
	}
	for _, t := range s.k.Blocked(kern.BlockedLock) {
		fn := ""
		for _, o := range kern.Owners(t.WaitLock()) {
			fn += o.Name + "(" + o.State().String() + " @" + o.Site + ") "
		}
		s.vio("C06", "deadlock", "", fmt.Sprintf("%s is blocked on a lock and nothing is runnable: held by %s", t.Name, fn))
		// a round-robin BIND pick caught in it never gets its channel, nor returns
		// when its context ends (C09)
		for _, c := range s.calls {
			if cm := s.model.calls[c.ID]; cm != nil && cm.rr && c.Invoked && !c.Returned && c.task != nil && c.task.State() != kern.Done && c.task.State() != kern.BlockedSelect {
				s.vio("C09", "rr-bind-never-returns", "deadlock", fmt.Sprintf("round-robin BIND call %d is part of a deadlock (%v at %s): %s is blocked on a lock held by %s", c.ID, c.task.State(), c.task.Site, t.Name, fn))
				break
			}
		}
		s.stop = true
		return
	}
}

//go:norace
func (s *Sim) drain() {
	for ; s.drained < len(s.env.Events); s.drained++ {
		ev := s.env.Events[s.drained]
		if ev.Kind == EvPanic {
			s.panicViolation(ev)
		}
		s.model.On(ev)
		if s.conc {
			s.safety(ev)
		}
	}
	if s.model != nil && len(s.model.viol) > 0 {
		s.res.Violations = append(s.res.Violations, s.model.viol...)
		for _, v := range s.model.viol {
			s.k.Logf("VIOLATION %s %s", v.Sig, v.Msg)
		}
		s.model.viol = nil
		s.stop = true
	}
}

// safety holds the schedule-independent oracles of concurrent runs.
//
//go:norace
func (s *Sim) safety(ev Event) {
	switch ev.Kind {
	case EvNewSC:
		if ev.Phase != PhDone {
			n := 0
			for _, c := range s.env.Conns {
				if c.CreatedPhase != PhDone {
					n++
				}
			}
			min, max := int(s.plan.Cfg.Min), int(s.plan.Cfg.Max)
			if s.plan.Cfg.NilCfg || s.plan.Cfg.NilPool {
				min, max = 0, 0
			}
			if max == 0 {
				max = 4
			}
			if min == 0 {
				min = 1
			}
			if s.plan.Legal && !s.degraded && min <= max && n > max {
				s.vio("C03", "pool-exceeds-max", "concurrent", fmt.Sprintf("pool has %d channels, maxSize %d", n, max))
				s.stop = true
			}
		}
	case EvRemoveSC:
		if ev.Note == "again" && !s.degraded {
			// recorded, and the run goes on: what follows from it (a connection that is
			// never removed keeps counting for the published state) belongs to C04
			s.vio("C07", "old-conn-not-removed-once", "concurrent", fmt.Sprintf("RemoveSubConn(sc%d) called twice", ev.Conn))
		}
	}
}

//go:norace
func (s *Sim) panicViolation(ev Event) {
	fn := simkit.FuncOfStack(ev.Addrs)
	cls := panicClass(ev.Note)
	s.res.Violations = append(s.res.Violations, simkit.Violation{Property: "C05", Rule: "panic", Sig: "C05|panic|" + cls + "|" + fn,
		Msg: fmt.Sprintf("panic in %s: %s", fn, ev.Note), Op: ev.Op})
	s.k.Logf("VIOLATION C05 panic in %s: %s", fn, ev.Note)
	s.stop = true
}

//go:norace
func panicClass(msg string) string {
	switch {
	case strings.Contains(msg, "nil pointer"):
		return "nil-deref"
	case strings.Contains(msg, "index out of range"):
		return "index"
	case strings.Contains(msg, "interface conversion"):
		return "type-assert"
	case strings.Contains(msg, "nil map"):
		return "nil-map"
	case strings.Contains(msg, "divide by zero"):
		return "div0"
	case strings.Contains(msg, "close of"):
		return "close"
	case strings.Contains(msg, "reflect"):
		return "reflect"
	}
	return "other"
}

// checkKernel turns kernel-detected conditions into C06 / C05 violations.
//
//go:norace
func (s *Sim) checkKernel() {
	f := s.k.Fail
	if f == nil {
		return
	}
	s.stop = true
	fn := simkit.FuncOfStack(f.Stack)
	// a round-robin BIND pick that deadlocks or spins is also C09's "is handed its
	// channel once READY, returns when its context ends"
	rrBind := false
	if s.plan.Cfg.RR {
		for _, c := range s.calls {
			if c.task != nil && c.task.Name == f.Task && c.Method == MBind && c.Invoked && !c.Returned {
				rrBind = true
			}
		}
	}
	if rrBind && (f.Kind == "relock" || f.Kind == "spin") {
		s.vio("C09", "rr-bind-never-returns", f.Kind+"|"+fn, fmt.Sprintf("round-robin BIND pick %s can never return: %s (in %s)", f.Task, f.Msg, fn))
		s.stop = true
	}
	switch f.Kind {
	case "relock":
		s.vio("C06", "self-deadlock", fn, fmt.Sprintf("%s: %s (in %s)", f.Task, f.Msg, fn))
	case "lockleak":
		s.vio("C06", "lock-left-held", "", fmt.Sprintf("%s: %s", f.Task, f.Msg))
	case "spin":
		s.vio("C06", "spin", fn, fmt.Sprintf("%s: %s (in %s)", f.Task, f.Msg, fn))
	case "panic":
		// panics inside harness-issued calls are recovered and reported through
		// EvPanic; one that reaches the task wrapper escaped a library goroutine.
		s.vio("C05", "panic", panicClass(f.Msg)+"|"+fn, fmt.Sprintf("panic in %s: %s", fn, f.Msg))
	default:
		s.res.Harness = f.Kind + ": " + f.Msg
	}
	s.k.Fail = nil
}

// checkQuiescent: at a quiescent point of a serial run nothing may be blocked
// on a lock, every operation other than a waiting round-robin BIND must have
// returned, and a waiting round-robin BIND must really have to wait.
//
//go:norace
func (s *Sim) checkQuiescent() {
	s.checkStuck()
	if s.stop {
		return
	}
	for _, t := range s.k.Blocked(kern.BlockedLock) {
		s.vio("C06", "deadlock", "", fmt.Sprintf("%s is blocked on %s at quiescence: %s", t.Name, "lock", kern.OwnerInfo(t.WaitLock())))
		s.stop = true
		return
	}
	now := s.k.Elapsed()
	for _, c := range s.calls {
		if !c.Invoked || c.Returned || c.task == nil {
			continue
		}
		st := c.task.State()
		if st == kern.Done {
			continue
		}
		cm := s.model.calls[c.ID]
		if s.degraded && c.Method == MBind && s.model.cfg.rr {
			continue // a round-robin BIND assigned to a shut-down channel waits for its context
		}
		if cm == nil || !cm.rr {
			s.vio("C06", "pick-blocked", "", fmt.Sprintf("call %d (%s) did not return from Pick and is %v at %s", c.ID, c.MethodName, st, c.task.Site))
			s.stop = true
			return
		}
		s.model.probe("rr_pick_waiting")
		if c.CtxEnded(now) {
			s.vio("C06", "rr-wait-after-ctx-end", "", fmt.Sprintf("round-robin BIND call %d still waits although its context ended", c.ID))
			s.stop = true
			return
		}
		allReady := true
		for _, ch := range s.model.chans {
			if !ch.gone && ch.state != connectivity.Ready {
				allReady = false
			}
		}
		if p, ok := s.model.PredictRR(cm); (ok && s.model.chans[p].state == connectivity.Ready && !s.model.chans[p].gone) || (allReady && s.model.poolSize() > 0) {
			s.vio("C06", "rr-wait-although-ready", s.model.refreshFact(s.model.chans[p]), fmt.Sprintf("round-robin BIND call %d still waits although its channel is READY", c.ID))
			s.vio("C09", "rr-not-handed-when-ready", s.model.refreshFact(s.model.chans[p]), fmt.Sprintf("round-robin BIND call %d still waits although its channel is READY", c.ID))
			s.stop = true
			return
		}
	}
}

// ---------------------------------------------------------------- operations

//go:norace
func (s *Sim) spawnCore(op int, kind string, conn int, st connectivity.State, addrs string, fn func()) {
	tag := &TaskTag{Op: op, Phase: PhCore, Call: -1}
	s.k.KeyHint = s.opKey(op, 2)
	s.k.Spawn("core:"+kind, 1, tag, func() {
		s.env.coreMu.Lock()
		s.env.add(Event{Kind: EvOpStart, Conn: conn, State: st, Addrs: addrs, Note: kind, Call: -1})
		note := s.guard(fn)
		s.env.add(Event{Kind: EvOpEnd, Conn: conn, Note: note, Call: -1})
		s.env.coreMu.Unlock()
	})
}

// guard runs a call into the library and records a panic as an event.
//
//go:norace
func (s *Sim) guard(fn func()) (note string) {
	defer func() {
		if r := recover(); r != nil {
			if isAbort(r) {
				panic(r)
			}
			buf := make([]byte, 8192)
			n := runtimeStack(buf)
			s.env.add(Event{Kind: EvPanic, Conn: -1, Call: -1, Note: fmt.Sprint(r), Addrs: string(buf[:n])})
			note = "panic"
		}
	}()
	fn()
	return ""
}

//go:norace
func (s *Sim) stepsAfter(o Op) {
	if s.conc {
		s.k.RunSteps(o.N)
	} else {
		s.k.Quiesce()
	}
}

// sameLengthVariant returns js with the first digit of a number (outside any
// string) changed: another configuration text of exactly the same length.
//
//go:norace
func sameLengthVariant(js []byte) []byte {
	inStr := false
	for i := 0; i < len(js); i++ {
		c := js[i]
		switch {
		case c == '\\' && inStr:
			i++
		case c == '"':
			inStr = !inStr
		case !inStr && c >= '0' && c <= '9':
			v := append([]byte(nil), js...)
			v[i] = '0' + (c - '0') ^ 1
			if v[i] == '0' && i+1 < len(js) && js[i+1] >= '0' && js[i+1] <= '9' {
				v[i] = '2' + (c-'0')%2 // no leading zero
			}
			return v
		}
	}
	return nil
}

// waitSlowCC: a balancer callback sleeps inside a ClientConn call that takes
// simulated time (plan.SlowCC): the clock moves on in steps of 50 ms - poll
// timers of waiting calls fire meanwhile - until the callback has returned.
//
//go:norace
func (s *Sim) waitSlowCC() {
	if s.env.SlowRemove == 0 || s.conc {
		return
	}
	for i := 0; i < 20 && !s.stop; i++ {
		busy := false
		for _, t := range s.k.Blocked(kern.BlockedSleep) {
			if tg, ok := t.Tag.(*TaskTag); ok && tg.Phase == PhCore {
				busy = true
			}
		}
		if !busy {
			return
		}
		s.k.Advance(50 * time.Millisecond)
	}
}

// overlapsConn: operation i is followed - after more operations flagged
// FlagOverlap at most - by a connection report.
//
//go:norace
func (s *Sim) overlapsConn(i int) bool {
	for j := i + 1; j < len(s.plan.Ops); j++ {
		o := s.plan.Ops[j]
		if o.K == OpConn {
			return true
		}
		if o.F&FlagOverlap == 0 || (o.K != OpPick && o.K != OpDone) {
			return false
		}
	}
	return false
}

// endReq ends the application's request context (once).
//
//go:norace
func (s *Sim) endReq(rq *reqCtx) {
	if rq.cancelled {
		return
	}
	rq.cancelled, rq.at = true, s.k.Elapsed()
	rq.cancel()
}

// lagExpiry: the request context's deadline has passed; its cancellation
// follows before this operation or, for every other pick, right after it.
//
//go:norace
func (s *Sim) lagExpiry(o Op, after bool) {
	rq := s.req
	if rq == nil || rq.cancelled || rq.deadline > s.k.Elapsed() {
		return
	}
	if after && !rq.spared {
		return // the next operation decides
	}
	if !after && !rq.spared && o.K == OpPick && o.D == 3 {
		rq.spared = true
		return // this call still sees the context alive
	}
	rq.cancelled, rq.at = true, s.k.Elapsed()
	s.cancelCtx(rq.cancel)
	s.k.Bump()
	if !s.conc {
		s.k.Quiesce()
	}
}

//go:norace
func (s *Sim) exec(i int, o Op) {
	s.repicks(false)
	if s.stop {
		return
	}
	s.lagExpiry(o, false)
	defer s.lagExpiry(o, true)
	env := s.env
	switch o.K {
	case OpResolver:
		addrs, want := s.resolved(o.A)
		if o.F&FlagEmpty != 0 {
			want = "[]"
			addrs = nil
			env.Fired["resolver_empty_list"]++
		}
		var cfg serviceconfig.LoadBalancingConfig
		kind := "resolver"
		if o.B == 1 && s.resolverSent {
			cfg = s.cfg2
			kind = "resolver cfg2"
		} else if !s.plan.Cfg.NilCfg {
			cfg = s.callerCfg
		}
		s.resolverSent = true
		// what gRPC passes along besides the addresses (clientconn.go: the resolver
		// state as delivered, also when its service config did not parse - the
		// channel then keeps the previous config and still tells the balancer)
		rs := resolver.State{Addresses: addrs}
		switch o.C % 4 {
		case 2:
			rs.ServiceConfig = badServiceConfig
			env.Fired["resolver_state_with_unparsable_service_config"]++
		case 3:
			rs.Attributes = resolverAttrs
			env.Fired["resolver_state_with_attributes"]++
		}
		if s.twinBal != nil && !s.twinSent {
			// the twin's first update, on its own serializer (no ordering with ours)
			s.twinSent = true
			a2 := make([]resolver.Address, len(addrs))
			for j := range addrs {
				a2[j] = addrs[j]
			}
			tb, tc := s.twinBal, s.twinCfg
			s.k.Spawn("core2:resolver", 2, &TaskTag{Op: i, Phase: PhCore, Call: -1}, func() {
				s.guard(func() {
					tb.UpdateClientConnState(balancer.ClientConnState{ResolverState: resolver.State{Addresses: a2}, BalancerConfig: tc})
				})
			})
		}
		s.spawnCore(i, kind, -1, 0, want, func() {
			s.bal.UpdateClientConnState(balancer.ClientConnState{ResolverState: rs, BalancerConfig: cfg})
		})
		s.stepsAfter(o)
	case OpResErr:
		env.Fired["resolver_error"]++
		s.spawnCore(i, "reserr", -1, 0, "", func() { s.bal.ResolverError(errors.New("simulated resolver error")) })
		s.stepsAfter(o)
	case OpConn:
		if len(env.Conns) == 0 {
			return
		}
		sc := env.Conns[len(env.Conns)-1]
		if o.A >= 0 {
			sc = env.Conns[o.A%len(env.Conns)]
		} else if o.A == -2 {
			// the connection the most recent placed call went to
			for j := len(s.calls) - 1; j >= 0; j-- {
				if c := s.calls[j]; c.Res.Kind == ResPlaced && c.Res.Conn < len(env.Conns) {
					sc = env.Conns[c.Res.Conn]
					break
				}
			}
		} else if o.A == -3 {
			// the connection of the oldest call still in flight
			for _, c := range s.calls {
				if c.InFlight && !c.Completed && c.Res.Kind == ResPlaced && c.Res.Conn < len(env.Conns) {
					sc = env.Conns[c.Res.Conn]
					break
				}
			}
		} else if o.A == -4 {
			// the connection the most recently completed BIND call had been placed on
			// (the home of the key it bound)
			for j := len(s.calls) - 1; j >= 0; j-- {
				if c := s.calls[j]; c.Method == MBind && c.Completed && c.Res.Kind == ResPlaced && c.Res.Conn < len(env.Conns) {
					sc = env.Conns[c.Res.Conn]
					break
				}
			}
		}
		st, ok := s.resolveConnEvent(sc, o)
		if !ok {
			return
		}
		sc.Truth = st
		if st == connectivity.Shutdown {
			sc.ShutdownSent = true
		}
		s.spawnCore(i, "conn", sc.ID, st, "", func() {
			s.bal.UpdateSubConnState(sc, s.connState(sc.ID, st))
		})
		s.stepsAfter(o)
	case OpPick:
		s.startCall(i, o)
		if o.F&FlagOverlap != 0 && !s.conc && s.overlapsConn(i) {
			// (as for completions below: this pick and the connection report that
			// follows overlap; the pick is judged as ever - the state of a channel
			// whose replacement takes over is READY before, during and after)
			s.k.RunSteps(o.N)
			s.overlap = true
			env.Fired["pick_overlapping_the_next_connection_report"]++
			return
		}
		s.stepsAfter(o)
	case OpDone:
		s.completeCall(i, o)
		if o.F&FlagOverlap != 0 && !s.conc && s.overlapsConn(i) {
			// the only overlap inside a serial plan: this completion and the
			// connection report that follows it (the model knows, see kLo)
			s.k.RunSteps(o.N)
			s.overlap = true
			env.Fired["completion_overlapping_the_next_connection_report"]++
			return
		}
		s.stepsAfter(o)
	case OpAdvance:
		d := time.Duration(o.E) * time.Millisecond
		switch o.A {
		case 2, 3, 4:
			if s.model != nil {
				if b, ok := s.model.NextBoundary(o.B, s.k.Elapsed()); ok {
					d = b + time.Duration(o.A-3)*time.Nanosecond
					env.Fired["advance_to_window_boundary"]++
				}
			}
		case 5:
			d = 3 * time.Hour
			s.k.Quiesce()
			for _, c := range s.calls {
				if c.Invoked && !c.Returned {
					d = 10 * time.Second // a waiting round-robin pick polls every 100ms: keep the step count sane
				}
			}
			env.Fired["clock_jump_hours"]++
		}
		if d < 0 {
			d = 0
		}
		env.Fired["clock_advance"]++
		s.k.Advance(d)
	case OpCancel:
		var cands []*Call
		for _, c := range s.calls {
			if c.Invoked && !c.Completed && !c.WasCancelled && c.cancel != nil && (c.InFlight || !c.Returned) {
				cands = append(cands, c)
			}
		}
		if len(cands) == 0 {
			return
		}
		c := cands[o.A%len(cands)]
		c.WasCancelled, c.CancelledAt = true, s.k.Elapsed()
		s.cancelCtx(c.cancel)
		s.k.Bump()
		env.Fired["ctx_cancel"]++
		s.stepsAfter(o)
	case OpFailNew:
		env.FailNew += o.A
	case OpSteps:
		s.k.RunSteps(o.A)
	case OpMark:
		// quiesce, then remember the load per channel if the pool is in the plain
		// state the spread clause needs: every channel READY, nothing waiting
		s.markOK = false
		if !s.conc {
			return
		}
		s.k.Quiesce()
		s.afterOp()
		if s.stop || !s.model.allReady() {
			return
		}
		for _, c := range s.calls {
			if c.Invoked && !c.Returned {
				return
			}
		}
		s.markLoad = s.markLoad[:0]
		lo, hi := 1<<30, -1
		for _, ch := range s.model.chans {
			s.markLoad = append(s.markLoad, ch.inflight)
			if ch.inflight < lo {
				lo = ch.inflight
			}
			if ch.inflight > hi {
				hi = ch.inflight
			}
		}
		if hi-lo > 1 {
			return
		}
		s.markOK, s.markSeq, s.markCalls = true, len(s.env.Events), len(s.calls)
	case OpSpread:
		if !s.conc || !s.markOK || s.degraded {
			return
		}
		s.markOK = false
		s.k.Quiesce()
		s.afterOp()
		if s.stop || len(s.model.chans) != len(s.markLoad) {
			return
		}
		// only unkeyed calls on the latest picker, all placed, and no balancer
		// callback or completion since the mark
		for _, ev := range s.env.Events[s.markSeq:] {
			if ev.Kind != EvPickInvoke && ev.Kind != EvPickReturn {
				return
			}
		}
		n := 0
		for _, c := range s.calls[s.markCalls:] {
			if c.Method != MPlain || c.Age != 0 || c.NoGCP || c.Stream || c.Res.Kind != ResPlaced {
				return
			}
			n++
		}
		if n < 2 {
			return
		}
		s.res.Count("probe:concurrent_spread_checked", 1)
		lo, hi := 1<<30, -1
		var now []int
		for _, ch := range s.model.chans {
			now = append(now, ch.inflight)
			if ch.inflight < lo {
				lo = ch.inflight
			}
			if ch.inflight > hi {
				hi = ch.inflight
			}
		}
		if hi-lo > 1 {
			s.vio("C02", "not-least-loaded", "concurrent-volley", fmt.Sprintf("%d unkeyed calls started together on a pool at its maximum size with every channel READY and nothing else going on: active streams per channel went from %v to %v - some call was placed on a channel that was not least loaded whatever order the calls are put in", n, s.markLoad, now))
			s.stop = true
		}
	case OpMutateCfg:
		if s.callerCfg != nil && s.callerCfg.ApiConfig != nil && s.bal != nil && len(s.env.Conns) > 0 {
			// The caller keeps using its object after handing it over (aliasing fault).
			if s.callerCfg.ChannelPool == nil {
				s.callerCfg.ChannelPool = &pb.ChannelPoolConfig{}
			}
			s.callerCfg.ChannelPool.MaxSize = 1
			s.callerCfg.ChannelPool.MaxConcurrentStreamsLowWatermark = 1
			s.callerCfg.ChannelPool.BindPickStrategy = pb.ChannelPoolConfig_ROUND_ROBIN
			s.callerCfg.Method = nil
			s.cfgSnap = proto.Clone(s.callerCfg.ApiConfig).(*pb.ApiConfig)
			env.Fired["caller_mutates_config"]++
			if s.model != nil {
				s.model.cfgFaulted = true
			}
		}
	}
}

// resolveConnEvent maps a symbolic connection event to the next state report
// of the fake transport state machine (grpc-go's addrConn).
//
//go:norace
func (s *Sim) resolveConnEvent(sc *FakeSC, o Op) (connectivity.State, bool) {
	if o.F&FlagOdd != 0 && !s.plan.Legal {
		st := []connectivity.State{connectivity.Idle, connectivity.Connecting, connectivity.Ready, connectivity.TransientFailure, connectivity.Shutdown}[o.C%5]
		// grpc-go reports SHUTDOWN only for a connection the balancer removed
		// (addrConn.tearDown); everything else may arrive out of order.
		if st != connectivity.Shutdown || sc.Removed {
			s.env.Fired["odd_state_report"]++
			return st, true
		}
	}
	if (o.F&FlagOdd != 0 && !s.plan.Legal && o.C%5 == 4 || o.B == ConnShutdown) && !sc.Removed && !sc.ShutdownSent {
		if s.plan.LiveShutdown && !s.healing {
			// Outside what grpc-go does, inside what C05 quantifies over ("state
			// reports ... in any order"): from here on the run is judged for
			// crashes and progress only, the statements of the other properties say
			// nothing about a pool whose connections were shut down under it.
			s.env.Fired["shutdown_of_live_connection"]++
			s.degraded = true
			s.model.track, s.model.degraded = true, true
			return connectivity.Shutdown, true
		}
	}
	if sc.Removed {
		if !sc.ShutdownSent && (o.B == ConnShutdown || o.B == ConnProgress) {
			s.env.Fired["shutdown_after_remove"]++
			return connectivity.Shutdown, true
		}
		return 0, false
	}
	if sc.ShutdownSent {
		return 0, false
	}
	switch o.B {
	case ConnProgress:
		switch sc.Truth {
		case connectivity.Idle:
			if sc.Connects > 0 {
				return connectivity.Connecting, true
			}
		case connectivity.Connecting:
			return connectivity.Ready, true
		case connectivity.TransientFailure:
			s.env.Fired["backoff_expiry"]++
			return connectivity.Idle, true
		}
	case ConnFail:
		switch sc.Truth {
		case connectivity.Connecting:
			s.env.Fired["connect_fails"]++
			return connectivity.TransientFailure, true
		case connectivity.Ready:
			s.env.Fired["connection_drops"]++
			return connectivity.Idle, true
		case connectivity.TransientFailure:
			s.env.Fired["backoff_expiry"]++
			return connectivity.Idle, true
		case connectivity.Idle:
			if sc.Connects > 0 {
				return connectivity.Connecting, true
			}
		}
	case ConnDuplicate:
		if sc.Truth != connectivity.Idle || sc.Connects > 1 {
			s.env.Fired["duplicate_report"]++
			return sc.Truth, true
		}
	}
	return 0, false
}

type fakeStream struct {
	grpc.ClientStream
	ctx context.Context
}

//go:norace
func (f *fakeStream) Context() context.Context { return f.ctx }

//go:norace
func (f *fakeStream) SendMsg(m interface{}) error { return nil }

//go:norace
func (f *fakeStream) RecvMsg(m interface{}) error { return nil }

//go:norace
func (f *fakeStream) CloseSend() error { return nil }

//go:norace
func (f *fakeStream) Header() (metadata.MD, error) { return nil, nil }

//go:norace
func (f *fakeStream) Trailer() metadata.MD { return nil }

//go:norace
func (s *Sim) startCall(i int, o Op) {
	if len(s.env.Pubs) == 0 {
		return
	}
	c := &Call{ID: len(s.calls), Op: i, Method: o.B, Age: o.C, PubIdx: -1}
	c.MethodName = methodNames[o.B%len(methodNames)]
	c.NoGCP = o.F&FlagNoGCP != 0
	c.Stream = o.F&FlagStream != 0 && !c.NoGCP
	c.NilMsg = o.F&FlagNilMsg != 0
	c.ReqKeys = s.keyNames(o.Keys)
	loc := s.plan.Cfg.Locator % len(locators)
	c.req = buildMsgFor(o.B, loc, c.ReqKeys)
	c.reply = emptyMsgFor(o.B)
	if s.dynT != nil && (o.B == MBind || o.B == MBound || o.B == MUnbind) {
		c.req = dynMsg(s.dynT, loc, c.ReqKeys)
		c.reply = reflect.New(s.dynT).Interface()
		c.dyn = true
	}
	c.waiter.Note = fmt.Sprintf("call %d in flight", c.ID)
	base := context.Background()
	if o.F&FlagChain != 0 && s.lastCallCtx != nil && !c.NoGCP {
		// a context derived from an earlier intercepted call (e.g. from
		// stream.Context()): values kept, cancellation dropped
		base = context.WithoutCancel(s.lastCallCtx)
		c.Chained = true
		s.env.Fired["ctx_derived_from_earlier_call"]++
	}
	switch o.D {
	case 1:
		d := time.Duration(o.E) * time.Millisecond
		c.HasDeadline, c.Deadline = true, s.k.Elapsed()+d
		c.ctx, c.cancel = context.WithTimeout(base, d)
		s.k.AddStop(time.Now().Add(d))
	case 2:
		c.ctx, c.cancel = context.WithCancel(base)
		c.cancel() // no task has seen this context yet
		c.WasCancelled, c.CancelledAt = true, s.k.Elapsed()
		s.env.Fired["ctx_cancelled_before_pick"]++
	case 3:
		if s.req == nil || s.req.cancelled {
			d := time.Duration(o.E) * time.Millisecond
			inner, cancel := context.WithCancel(context.Background())
			s.req = &reqCtx{Context: inner, dl: time.Now().Add(d), deadline: s.k.Elapsed() + d, cancel: cancel}
			s.k.AddStop(s.req.dl)
			s.env.Fired["request_context_created"]++
		}
		rq := s.req
		c.lag = rq
		c.ctx = rq
		c.cancel = func() { s.endReq(rq) }
		c.HasDeadline, c.Deadline = true, rq.deadline
		if rq.deadline <= s.k.Elapsed() {
			s.env.Fired["call_started_after_the_deadline_of_a_context_not_yet_done"]++
		}
	default:
		c.ctx, c.cancel = context.WithCancel(base)
	}
	if c.NoGCP {
		s.env.Fired["missing_interceptor_context"]++
	}
	if c.NilMsg {
		s.env.Fired["nil_request_message"]++
	}
	if c.Age > 0 {
		s.env.Fired["stale_picker_pick"]++
	}
	if s.plan.Cfg.RR && o.B == MBind {
		s.res.Count("rr_bind_pick_started", 1)
	}
	if o.B == MBound || o.B == MUnbind {
		s.res.Count("keyed_pick_started", 1)
	}
	c.tag = &TaskTag{Op: i, Phase: PhPick, Call: c.ID}
	c.repick = o.F&FlagRepick != 0 && !c.Stream
	c.retry = o.F&FlagRetry != 0
	c.RepickOf = -1
	c.repickW.Note = fmt.Sprintf("call %d waits for a newer picker", c.ID)
	s.calls = append(s.calls, c)
	s.k.KeyHint = s.opKey(i, 1)
	c.task = s.k.Spawn(fmt.Sprintf("call%d", c.ID), 0, c.tag, func() { s.callBody(c) })
}

// opKey: the schedule-independent key of the n-th task of plan operation op.
//
//go:norace
func (s *Sim) opKey(op int, n uint64) uint64 {
	id := uint64(op + 1000000)
	if op >= 0 && op < len(s.plan.Ops) && s.plan.Ops[op].ID != 0 {
		id = uint64(s.plan.Ops[op].ID)
	}
	s.keySeq++
	if op < 0 || op >= len(s.plan.Ops) {
		return kern.MixKey(id, n+s.keySeq<<8) // setup / heal tasks: unique per spawn
	}
	return kern.MixKey(id, n)
}

// lazyNote formats an event note only when the event log is on: fmt uses a
// sync.Pool, whose race annotations would add happens-before edges between the
// tasks that format (and hide races) in search runs.
//
//go:norace
func (s *Sim) lazyNote(f func() string) string {
	if s.k.LogOn {
		return f()
	}
	return ""
}

// cancelCtx cancels a call context from a task of its own, as some goroutine
// of the application would: the scheduler goroutine is deaf to synchronisation
// events and must not touch the context's mutex-protected state itself.
//
//go:norace
func (s *Sim) cancelCtx(cancel context.CancelFunc) {
	if s.k.Aborting() {
		cancel()
		return
	}
	s.k.Spawn("cancel", 0, &TaskTag{Op: s.opIdx, Call: -1}, func() { cancel() })
}

// callBody is the life of one RPC: interceptor -> pick on the chosen picker ->
// (in flight until the plan completes it) -> completion callback.
//
//go:norace
func (s *Sim) callBody(c *Call) {
	var req, reply interface{} = c.req, c.reply
	if c.NilMsg {
		// request shapes no key can be read from: untyped nil, typed nil pointer,
		// values that are not messages at all
		switch c.ID % 7 {
		case 6:
			// a repeated message field with a nil element (and nothing else to read
			// a key from): the walk along "items.name" meets a nil pointer
			req = &Msg{Num: 7, Items: []*Item{nil, {Name: "after-nil"}, nil}}
		case 5:
			// the key field is promoted from an embedded struct pointer that is nil
			req = &MsgE{Num: 7}
		case 0:
			req = nil
		case 1:
			req = (*Msg)(nil)
		case 2:
			req = "not a message"
		case 3:
			req = int32(7)
		case 4:
			// another type that prints as "poolsim.Msg" and lacks the key field
			// (only when the key path is not its one field)
			if s.plan.Cfg.Locator%len(locators) != 0 {
				req = &v2.Msg{Name: "other-version"}
			} else {
				req = nil
			}
		}
	}
	c.sentReq, c.sentReply = req, reply
	if c.Stream {
		c.sentReply = nil // the stream path has no reply object at pick time
	}
	invoker := func(ctx context.Context, method string, rq, rp interface{}, cc *grpc.ClientConn, opts ...grpc.CallOption) error {
		return s.pickAndWait(ctx, c)
	}
	switch {
	case c.NoGCP:
		_ = invoker(c.ctx, c.MethodName, req, reply, nil)
	case c.Stream:
		var sctx context.Context // what the interceptor handed to the streamer: the context of every pick of this RPC
		var cs grpc.ClientStream
		streamer := func(ctx context.Context, desc *grpc.StreamDesc, cc *grpc.ClientConn, method string, opts ...grpc.CallOption) (grpc.ClientStream, error) {
			sctx = ctx
			if err := s.pick(ctx, c); err != nil {
				return nil, err
			}
			return &fakeStream{ctx: ctx}, nil
		}
		note := s.guard(func() {
			var err error
			cs, err = grpcgcp.GCPStreamClientInterceptor(c.ctx, &grpc.StreamDesc{ClientStreams: c.ID%4 < 2, ServerStreams: c.ID%2 == 1}, nil, c.MethodName, streamer)
			if err == nil {
				err = cs.SendMsg(req)
			}
			_ = err
		})
		if note == "panic" && c.Res.Kind == ResNone {
			c.Res = PickRes{Kind: ResPanic, Err: "in stream interceptor"}
		}
		if c.Res.Kind == ResPlaced {
			err := s.waitAndComplete(c)
			if (err != nil || c.Outcome == OutRepick) && c.retry && sctx != nil && cs != nil && !s.healing && !s.stop && sctx.Err() == nil {
				// gRPC attempts the streaming call again before any response arrived
				// (transparent retry): the application may have half-closed the stream by
				// then; the new attempt is picked with the very same context
				if c.ID%2 == 0 {
					s.guard(func() { _ = cs.CloseSend() })
					s.nHalfClosed++ // (plain counters: this runs on a task, the Fired map is the scheduler's)
				}
				n := s.cloneForPick(c)
				n.attempt = 1
				s.nRetries++
				s.nStreamRetries++
				if s.pick(sctx, n) == nil {
					_ = s.waitAndComplete(n)
				}
			}
		}
	default:
		note := s.guard(func() {
			_ = grpcgcp.GCPUnaryClientInterceptor(c.ctx, c.MethodName, req, reply, nil, invoker)
		})
		_ = note
	}
}

//go:norace
func (s *Sim) pickAndWait(ctx context.Context, c *Call) error {
	for {
		err := s.pick(ctx, c)
		if err == nil {
			err = s.waitAndComplete(c)
			if err == nil && c.Outcome != OutRepick || !c.retry || c.attempt >= 1 || s.healing || s.stop || ctx.Err() != nil {
				return err
			}
			// gRPC attempts the call again (transparent retry, retry policy): another
			// pick with the very same context, another completion
			n := s.cloneForPick(c)
			n.attempt = c.attempt + 1
			c = n
			s.nRetries++
			continue
		}
		if c.Res.Kind != ResWait || !c.repick || s.healing {
			return err
		}
		// gRPC blocks an RPC that was told to wait until a newer picker exists and
		// then picks again - with the very same context, interceptor values included
		c.pendingRepick = true
		s.k.Wait(&c.repickW)
		c.pendingRepick = false
		if c.abandon || ctx.Err() != nil {
			return err
		}
		c = s.cloneForPick(c)
		s.nRepicks++
	}
}

// cloneForPick: the record of one more pick of the same RPC (same context,
// same messages), as a call of its own for the model.
//
//go:norace
func (s *Sim) cloneForPick(c *Call) *Call {
	n := *c
	n.ID = len(s.calls)
	n.Age, n.PubIdx = 0, -1
	n.Res, n.done = PickRes{}, nil
	n.Invoked, n.Returned, n.Completed, n.InFlight = false, false, false, false
	n.Outcome = 0
	n.released, n.abandon, n.pendingRepick = false, false, false
	n.waiter = kern.Waiter{Note: fmt.Sprintf("call %d in flight", n.ID)}
	n.repickW = kern.Waiter{Note: fmt.Sprintf("call %d waits for a newer picker", n.ID)}
	n.peekBad = ""
	n.RepickOf = c.ID
	n.tag.Call, n.tag.Phase = n.ID, PhPick // (a retry follows a completion: the task is picking again)
	s.calls = kern.Push(s.calls, &n)
	return &n
}

// repicks releases the calls that were told to wait and for which a newer
// picker has been published since; abandon releases all of them for good.
//
//go:norace
func (s *Sim) repicks(abandon bool) {
	any := false
	for _, c := range s.calls {
		if !c.pendingRepick || c.released {
			continue
		}
		if abandon || len(s.env.Pubs)-1 > c.PubIdx {
			c.abandon = abandon
			c.released = true
			s.k.Set(&c.repickW)
			any = true
			if !s.conc {
				// serial plans: one at a time, each to quiescence
				s.k.Quiesce()
				s.afterOp()
				if s.stop {
					return
				}
			}
		}
	}
	_ = any
}

// pick performs one Pick on the picker chosen by the plan (latest or stale).
//
//go:norace
func (s *Sim) pick(ctx context.Context, c *Call) error {
	s.env.pubMu.Lock()
	pubs := s.env.Pubs
	idx := len(pubs) - 1 - c.Age
	if idx < 0 {
		idx = 0
	}
	c.PubIdx = idx
	picker := pubs[idx].Picker
	s.env.pubMu.Unlock()
	c.Invoked = true
	s.lastCallCtx = ctx
	if !c.NoGCP && grpcgcp.VerifPeekSupported {
		rq, rp, ok := grpcgcp.VerifPeekGCPContext(ctx)
		switch {
		case !ok:
			c.peekBad = "no picker context in the call's context"
		case rq != c.sentReq:
			c.peekBad = "the picker context carries another request object"
		case rp != c.sentReply:
			c.peekBad = "the picker context carries another reply object"
		}
	}
	c.InvokeSeq = s.env.add(Event{Kind: EvPickInvoke, Conn: -1, Call: c.ID, Pub: idx, Note: s.lazyNote(func() string { return fmt.Sprintf("%s keys=%v pub=%d", c.MethodName, c.ReqKeys, idx) })})
	var res balancer.PickResult
	var err error
	note := s.guard(func() {
		res, err = picker.Pick(balancer.PickInfo{FullMethodName: c.MethodName, Ctx: ctx})
	})
	switch {
	case note == "panic":
		c.Res = PickRes{Kind: ResPanic}
		err = errors.New("panic")
	case err == nil:
		if f, ok := res.SubConn.(*FakeSC); ok {
			c.Res = PickRes{Kind: ResPlaced, Conn: f.ID}
			c.done = res.Done
			c.InFlight = true
		} else {
			c.Res = PickRes{Kind: ResErr, Err: fmt.Sprintf("nil error but SubConn %T", res.SubConn)}
			err = errors.New("bad pick result")
		}
	case err == balancer.ErrNoSubConnAvailable:
		c.Res = PickRes{Kind: ResWait}
	case err == balancer.ErrTransientFailure:
		c.Res = PickRes{Kind: ResTF}
	default:
		c.Res = PickRes{Kind: ResErr, Err: err.Error()}
	}
	c.Returned = true
	s.env.add(Event{Kind: EvPickReturn, Conn: c.Res.Conn, Call: c.ID, Pub: idx, Note: s.lazyNote(c.Res.String)})
	return err
}

//go:norace
func (s *Sim) waitAndComplete(c *Call) error {
	s.k.Wait(&c.waiter)
	var err error
	switch c.Outcome {
	case OutOK:
		switch rp := c.reply.(type) {
		case *Msg:
			*rp = *buildMsg(s.plan.Cfg.Locator%len(locators), c.ReplyKeys)
		case *MsgB:
			*rp = *(buildMsgFor(c.Method, s.plan.Cfg.Locator%len(locators), c.ReplyKeys).(*MsgB))
		case *MsgN:
			*rp = *(buildMsgFor(c.Method, s.plan.Cfg.Locator%len(locators), c.ReplyKeys).(*MsgN))
		default:
			if c.dyn {
				fillDyn(c.reply, buildMsg(s.plan.Cfg.Locator%len(locators), c.ReplyKeys))
			}
		}
	case OutAppErr:
		err = status.Error(codes.Internal, "application error")
	case OutClientDE, OutServerDE:
		err = status.Error(codes.DeadlineExceeded, context.DeadlineExceeded.Error())
	case OutOtherDE:
		err = status.Error(codes.DeadlineExceeded, "deadline exceeded on the server")
	case OutCancelled:
		err = status.Error(codes.Canceled, context.Canceled.Error())
	case OutRepick:
	}
	s.env.add(Event{Kind: EvDoneInvoke, Conn: c.Res.Conn, Call: c.ID, Note: outcomeNames[c.Outcome]})
	note := ""
	if c.done != nil {
		// the fields gRPC fills in besides the error vary too: none of them is part
		// of any statement (a client-side deadline counts whatever was received)
		di := balancer.DoneInfo{Err: err, BytesSent: c.ID%2 == 0, BytesReceived: c.ID%3 == 0}
		if c.ID%4 == 1 {
			di.Trailer = metadata.MD{"x-trailer": {"1"}}
		}
		if c.ID%5 == 2 {
			di.ServerLoad = "load-report"
		}
		note = s.guard(func() { c.done(di) })
	}
	c.Completed = true
	c.InFlight = false
	s.env.add(Event{Kind: EvDoneReturn, Conn: c.Res.Conn, Call: c.ID, Note: note})
	return err
}

//go:norace
func (s *Sim) completeCall(i int, o Op) {
	var fl []*Call
	for _, c := range s.calls {
		if c.InFlight && !c.waiter.IsSet() {
			fl = append(fl, c)
		}
	}
	if len(fl) == 0 {
		return
	}
	c := fl[len(fl)-1] // A < 0: the most recent call in flight
	if o.A >= 0 {
		c = fl[o.A%len(fl)]
	}
	if o.A == -5 {
		// the most recent call in flight that has no deadline
		for j := len(fl) - 1; j >= 0; j-- {
			if !fl[j].HasDeadline {
				c = fl[j]
				break
			}
		}
	}
	s.finishCall(i, c, o.B, s.keyNames(o.Keys))
}

//go:norace
func (s *Sim) finishCall(i int, c *Call, outcome int, replyKeys []string) {
	c.Outcome = outcome
	c.ReplyKeys = replyKeys
	now := s.k.Elapsed()
	switch outcome {
	case OutClientDE:
		if c.HasDeadline && c.Deadline > now {
			if s.conc {
				c.Outcome = OutServerDE
			} else {
				s.k.Advance(c.Deadline - now)
			}
		}
		if !c.HasDeadline {
			c.Outcome = OutServerDE
		}
	case OutCancelled:
		if !c.WasCancelled && c.cancel != nil {
			c.WasCancelled, c.CancelledAt = true, now
			s.cancelCtx(c.cancel)
		}
	}
	s.env.Fired["completion_"+outcomeNames[c.Outcome]]++
	c.tag.Op, c.tag.Phase = i, PhDone
	c.task.YieldsOp = 0
	s.k.Set(&c.waiter)
}

// ---------------------------------------------------------------- heal phase

// heal stops all faults, completes every call, makes every pool connection
// READY through legal transitions and then issues a fixed probe workload.
//
//go:norace
func (s *Sim) heal() {
	i := len(s.plan.Ops)
	s.healing = true
	s.env.FailNew = 0
	if s.env.SlowRemove > 0 {
		s.res.Count("fault:clientconn_call_that_takes_simulated_time", s.env.NSlow)
		s.env.SlowRemove = 0
	}
	s.repicks(true)
	s.k.Quiesce()
	s.afterOp()
	if s.stop {
		return
	}
	if s.conc && s.degraded {
		// a burst in which a live connection was shut down: bring the rest up,
		// complete the calls (crash and progress oracles), nothing else is judged
		s.healConnsAndCalls(i)
		s.res.Count("heal_reached_degraded", 1)
		return
	}
	if s.conc {
		s.preHealKeyProbe(i)
		if s.stop {
			return
		}
	}
	s.healConnsAndCalls(i)
	if s.stop || len(s.env.Pubs) == 0 {
		return
	}
	if s.conc {
		s.healConcurrent(i)
		if s.stop || !s.enterSerial() {
			return
		}
		// Bindings the burst certainly made: one BOUND call per key (at most three),
		// judged by the full model, before anything else happens to the pool.
		for j, k := range s.burstBound {
			if j >= 3 || s.stop {
				break
			}
			q := s.probeCall(len(s.plan.Ops)+1, MBound, []string{k})
			s.res.Count("probe:concurrent_binding_called_after_burst", 1)
			if s.stop {
				return
			}
			if q.InFlight {
				s.finishCall(len(s.plan.Ops)+1, q, OutAppErr, nil)
				s.k.Quiesce()
				s.afterOp()
			}
		}
		if s.stop {
			return
		}
		// Post-burst serial conformance: whatever interleaving the burst took, the
		// pool must afterwards behave by the statements again. A short serial
		// suffix (fresh affinity keys only) is executed with the full model.
		for j, o := range s.plan.Suffix {
			if s.stop || s.k.Aborting() {
				return
			}
			s.opIdx = len(s.plan.Ops) + 1 + j
			s.src.Segment(len(s.plan.Ops) + 2 + j)
			s.exec(s.opIdx, o)
			s.afterOp()
		}
		if s.stop {
			return
		}
		// Keys the burst certainly left unbound (a successful UNBIND completion began
		// after every BIND completion naming the key had returned): bind each again
		// and call it - with the full model, which holds them as unbound too. A
		// binding that survived its UNBIND shows here.
		if c := s.plan.Cfg; int(c.Locator) < nGoodLocators && !c.NilCfg {
			ku := s.model.KnownUnbound()
			if len(ku) > 2 {
				ku = ku[:2]
			}
			for _, k := range ku {
				if s.stop {
					return
				}
				b := s.probeCall(len(s.plan.Ops)+1+len(s.plan.Suffix), MBind, nil)
				if s.stop || b.Res.Kind != ResPlaced || !b.InFlight {
					break
				}
				s.finishCall(len(s.plan.Ops)+1+len(s.plan.Suffix), b, OutOK, []string{k})
				s.k.Quiesce()
				s.afterOp()
				if s.stop {
					return
				}
				q := s.probeCall(len(s.plan.Ops)+1+len(s.plan.Suffix), MBound, []string{k})
				s.res.Count("probe:concurrent_rebind_of_unbound_key", 1)
				if s.stop {
					return
				}
				if q.InFlight {
					s.finishCall(len(s.plan.Ops)+1+len(s.plan.Suffix), q, OutAppErr, nil)
					s.k.Quiesce()
					s.afterOp()
				}
			}
			if s.stop {
				return
			}
		}
		s.res.Count("post_burst_suffix_done", 1)
		i = len(s.plan.Ops) + 1 + len(s.plan.Suffix)
		s.opIdx = i
		s.src.Segment(i + 1)
		s.healConnsAndCalls(i)
		if s.stop {
			return
		}
	}
	if s.degraded {
		s.res.Count("heal_reached_degraded", 1)
		return
	}
	s.res.Count("heal_reached", 1)
	// Probe 1 (C01): every bound key goes home on the latest picker.
	keys := make([]string, 0, len(s.model.keys))
	for k := range s.model.keys {
		keys = append(keys, k)
	}
	sortStrings(keys)
	if len(keys) > 8 {
		keys = keys[:8] // scale fragments bind over a thousand keys
	}
	var probes []*Call
	for _, k := range keys {
		if k == "" || s.stop {
			continue
		}
		c := s.probeCall(i, MBound, []string{k})
		probes = append(probes, c)
	}
	// Probe 2 (C02): with nothing in flight, held plain calls fill channels evenly.
	for _, c := range probes {
		if c.InFlight && !s.stop {
			s.finishCall(i, c, OutAppErr, nil)
			s.k.Quiesce()
			s.afterOp()
		}
	}
	if s.stop {
		return
	}
	for _, ch := range s.model.chans {
		if ch.inflight != 0 {
			s.res.Harness = fmt.Sprintf("heal: model channel %d still has %d in flight", ch.idx, ch.inflight)
			return
		}
	}
	n := len(s.model.readyList())
	if n == 0 {
		return
	}
	total := 2 * n
	if s.model.cfg.wm <= 3 {
		total = s.model.cfg.wm * n
	}
	var held []*Call
	for j := 0; j < total && !s.stop; j++ {
		held = append(held, s.probeCall(i, MPlain, nil))
	}
	if !s.stop {
		s.res.Count("heal_fill_probe_done", 1)
	}
	for _, c := range held {
		if c.InFlight && !s.stop {
			s.finishCall(i, c, OutAppErr, nil)
			s.k.Quiesce()
			s.afterOp()
		}
	}
}

// closePhase ends the run the way a channel ends: gRPC closes the balancer
// (channel closed, or another policy selected) while calls are still in flight
// and picks may be waiting. No balancer callback follows Close; picks on the
// pickers published so far and completion callbacks still arrive. Judged for
// crashes and progress only (C05, C06): a pick that waits must keep waiting
// quietly (no spinning) until its context ends, and then return.
//
//go:norace
func (s *Sim) closePhase() {
	i := len(s.plan.Ops)
	s.healing = true
	s.env.FailNew = 0
	if s.env.SlowRemove > 0 {
		s.res.Count("fault:clientconn_call_that_takes_simulated_time", s.env.NSlow)
		s.env.SlowRemove = 0
	}
	s.repicks(true)
	s.k.Quiesce()
	s.afterOp()
	if s.stop || len(s.env.Pubs) == 0 {
		return
	}
	s.degraded = true
	s.model.track, s.model.degraded = true, true
	s.env.Fired["balancer_closed_with_calls_in_flight"]++
	s.spawnCore(i, "close", -1, 0, "", func() { s.bal.Close() })
	s.k.Quiesce()
	s.afterOp()
	if s.stop {
		return
	}
	// late picks on the last published picker
	late := []*Call{s.probeCall(i, MPlain, nil), s.probeCall(i, MBind, []string{"late"})}
	if s.stop {
		return
	}
	// waiting picks: their contexts end now
	for _, c := range s.calls {
		if c.Invoked && !c.Returned && c.cancel != nil && !c.WasCancelled {
			c.WasCancelled, c.CancelledAt = true, s.k.Elapsed()
			s.cancelCtx(c.cancel)
		}
	}
	s.k.Bump()
	s.k.Quiesce()
	s.afterOp()
	if s.stop {
		return
	}
	for _, c := range s.calls {
		if c.Invoked && !c.Returned && c.task != nil && c.task.State() != kern.Done {
			s.vio("C06", "pick-blocked-after-close", "", fmt.Sprintf("call %d (%s) still has not returned from Pick after the balancer was closed and its context ended (%v at %s)", c.ID, c.MethodName, c.task.State(), c.task.Site))
			s.stop = true
			return
		}
	}
	// completion callbacks after Close
	_ = late
	for _, c := range s.calls {
		if s.stop {
			return
		}
		if c.InFlight && !c.waiter.IsSet() {
			s.finishCall(i, c, []int{OutOK, OutAppErr, OutClientDE}[c.ID%3], nil)
			s.k.Quiesce()
			s.afterOp()
		}
	}
	s.res.Count("close_phase_done", 1)
}

// preHealKeyProbe: the burst has quiesced but nothing has been healed yet, so
// some channels may be down. With fallback enabled, whatever interleaving the
// burst took, a keyed call on the latest picker that is placed at all is placed
// on a connection that is READY (home, recorded stand-in or a fresh stand-in)
// as long as some pool connection is READY: a stand-in entry pointing at a
// channel that has left READY is exactly what C08 excludes.
//
//go:norace
func (s *Sim) preHealKeyProbe(i int) {
	c := s.plan.Cfg
	if !c.Fallback || !s.plan.Legal || c.NilCfg || c.NilPool || c.RR || int(c.Locator) >= nGoodLocators || len(s.env.Pubs) == 0 || s.model.cBound == nil {
		return
	}
	var keys []string
	for k := range s.model.cBound {
		if k != "" && !s.model.cDropped[k] {
			keys = append(keys, k)
		}
	}
	sortStrings(keys)
	if len(keys) > 3 {
		keys = keys[:3]
	}
	for _, k := range keys {
		anyReady := false
		for _, sc := range s.env.Conns {
			if !sc.Removed && !sc.ShutdownSent && sc.Truth == connectivity.Ready && sc.CreatedPhase != PhDone {
				anyReady = true
			}
		}
		if !anyReady || s.stop {
			return
		}
		p := s.probeCall(i, MBound, []string{k})
		if s.stop {
			return
		}
		s.res.Count("probe:concurrent_preheal_keyed_probe", 1)
		if p.Res.Kind == ResPlaced && p.Res.Conn >= 0 && p.Res.Conn < len(s.env.Conns) {
			if sc := s.env.Conns[p.Res.Conn]; sc.Truth != connectivity.Ready {
				s.vio("C08", "stand-in-not-ready", "concurrent", fmt.Sprintf("after a concurrent run, at quiescence, with fallback enabled and a READY connection in the pool, call %d /svc/Bound for key %q was placed on sc%d, which last reported %v", p.ID, k, sc.ID, sc.Truth))
				s.stop = true
				return
			}
		}
		if p.InFlight {
			s.finishCall(i, p, OutAppErr, nil)
			s.k.Quiesce()
			s.afterOp()
		}
	}
}

// healConnsAndCalls drives every live connection to READY through legal
// transitions, checks that no round-robin BIND still waits, cancels waiting
// picks and completes every call.
//
//go:norace
func (s *Sim) healConnsAndCalls(i int) {
	// drive every live connection to READY
	for round := 0; round < 6 && !s.stop; round++ {
		progress := false
		for _, sc := range s.env.Conns {
			if s.stop {
				return
			}
			if sc.Truth == connectivity.Ready {
				continue
			}
			st, ok := s.resolveConnEvent(sc, Op{K: OpConn, B: ConnProgress})
			if !ok {
				continue
			}
			progress = true
			sc.Truth = st
			if st == connectivity.Shutdown {
				sc.ShutdownSent = true
			}
			sc := sc
			s.spawnCore(i, "conn", sc.ID, st, "", func() {
				s.bal.UpdateSubConnState(sc, s.connState(sc.ID, st))
			})
			s.k.Quiesce()
			s.afterOp()
		}
		if !progress {
			break
		}
	}
	if s.stop {
		return
	}
	// Every pool connection is READY and every report has been delivered: a
	// round-robin BIND pick that still waits has lost its wake-up (C06/C09).
	allReady := true
	for _, sc := range s.env.Conns {
		if !sc.Removed && !sc.ShutdownSent && sc.Truth != connectivity.Ready {
			allReady = false
		}
	}
	now := s.k.Elapsed()
	for _, c := range s.calls {
		if s.degraded {
			break
		}
		if allReady && c.Invoked && !c.Returned && c.task != nil && c.task.State() == kern.BlockedSelect && !c.CtxEnded(now) {
			msg := fmt.Sprintf("round-robin BIND call %d still waits although every pool connection is READY and all reports were delivered", c.ID)
			s.vio("C06", "rr-wait-although-ready", "heal", msg)
			s.vio("C09", "rr-not-handed-when-ready", "heal", msg)
			s.stop = true
			return
		}
	}
	// cancel pending round-robin picks, complete all calls
	for _, c := range s.calls {
		if c.Invoked && !c.Returned && c.cancel != nil && !c.WasCancelled {
			c.WasCancelled, c.CancelledAt = true, s.k.Elapsed()
			s.cancelCtx(c.cancel)
		}
	}
	s.k.Bump()
	s.k.Quiesce()
	s.afterOp()
	if s.conc && !s.degraded && !s.stop {
		s.model.RRBurstCheck()
		s.model.GrowthBurstCheck()
		s.drain()
	}
	for _, c := range s.calls {
		if s.stop {
			return
		}
		if c.InFlight && !c.waiter.IsSet() {
			s.finishCall(i, c, OutAppErr, nil)
			s.k.Quiesce()
			s.afterOp()
		}
	}
}

// enterSerial switches from the concurrent burst to serial execution with the
// full model: every call has completed (in-flight counts are zero by
// construction), bindings made during the burst are unknown to the model
// (concurrent BIND completions have no defined order) and are never used again:
// the suffix uses fresh keys.
//
//go:norace
func (s *Sim) enterSerial() bool {
	m := s.model
	for _, ch := range m.chans {
		if ch.inflight != 0 {
			return false // a call could not be completed: nothing to judge
		}
	}
	// The structure tracked during the burst must agree with the environment's
	// ground truth before the model is trusted again: every channel's current
	// connection alive, every other live connection a pending replacement.
	live, pending := 0, 0
	for _, sc := range s.env.Conns {
		if !sc.Removed && !sc.ShutdownSent {
			live++
		}
	}
	for _, ch := range m.chans {
		if ch.gone || ch.cur >= len(s.env.Conns) || s.env.Conns[ch.cur].Removed {
			s.res.Count("post_burst_skipped_inconsistent", 1)
			return false
		}
		if ch.refreshing {
			pending++
		}
	}
	if live != len(m.chans)+pending {
		s.res.Count("post_burst_skipped_inconsistent", 1)
		return false
	}
	for _, c := range s.calls {
		if c.Invoked && !c.Returned {
			return false
		}
	}
	now := s.k.Elapsed()
	for _, ch := range m.chans {
		ch.lastResp[0], ch.lastResp[1] = now, now
		ch.de[0], ch.de[1] = 0, 0
		ch.k[0], ch.k[1] = 0, 0
		ch.keys = 0
	}
	m.keys = map[string]int{}
	// ... except the bindings the burst certainly made (KnownBound): the model
	// keeps them, and heal() calls each such key once - it must still travel on
	// the channel it was bound to, whatever the burst did to that channel.
	s.burstBound = nil
	if c := s.plan.Cfg; int(c.Locator) < nGoodLocators && !c.NilCfg {
		kb, home := m.KnownBound()
		for _, k := range kb {
			if h := home[k]; h >= 0 && h < len(m.chans) && !m.chans[h].gone {
				m.keys[k] = h
				m.chans[h].keys++
				s.burstBound = append(s.burstBound, k)
			}
		}
	}
	m.fb = map[string]int{}
	m.rrSeq = nil
	m.epoch++
	m.track = false
	s.conc = false
	return true
}

// healConcurrent: after a concurrent run has quiesced and every call has
// completed, stream accounting must be back to zero on every channel (C02): with
// a small watermark exactly watermark x channels held calls fit without growth
// and without being told to wait; a leaked or lost count breaks that.
//
//go:norace
//go:norace
func (s *Sim) healConcurrent(i int) {
	c := s.plan.Cfg
	// C20, schedule-independent: everything has quiesced, so every resolver
	// update has returned; whatever interleaving the burst took, every live
	// connection - pool member, growth connection or pending replacement - holds
	// the most recently resolved list.
	if la := s.model.lastAddrs; la != "" {
		for _, sc := range s.env.Conns {
			if sc.Removed || sc.ShutdownSent {
				continue
			}
			s.res.Count("probe:concurrent_conn_addrs_checked", 1)
			if sc.Addrs != la {
				s.vio("C20", "conn-stale-addrs", "concurrent", fmt.Sprintf("after a concurrent run, at quiescence, live connection sc%d (created in phase %v) holds %s, the most recently resolved list is %s", sc.ID, sc.CreatedPhase, sc.Addrs, la))
				s.stop = true
				return
			}
		}
	}
	if !s.plan.Legal || c.NilCfg || c.NilPool || c.WM == 0 || c.WM > 3 {
		return
	}
	var pool []*FakeSC
	for _, sc := range s.env.Conns {
		if sc.Removed || sc.ShutdownSent {
			continue
		}
		if sc.Truth != connectivity.Ready {
			return // a connection could not be healed (no Connect requested): nothing to judge
		}
		pool = append(pool, sc)
	}
	// replacement connections of unfinished refreshes are not pool channels
	n := 0
	for _, sc := range pool {
		if sc.CreatedPhase != PhDone {
			n++
		}
	}
	for _, sc := range pool {
		if sc.CreatedPhase == PhDone {
			return // a refresh happened: channel/connection mapping is not tracked in concurrent mode
		}
	}
	if n == 0 || n > 5 {
		return
	}
	max := int(c.Max)
	if max == 0 {
		max = 4
	}
	total := int(c.WM) * n
	counts := map[int]int{}
	var held []*Call
	for j := 0; j < total && !s.stop; j++ {
		p := s.probeCallNoModel(i, MPlain)
		held = append(held, p)
		if s.stop {
			return
		}
		if p.Res.Kind != ResPlaced {
			s.vio("C02", "residual-stream-count", "concurrent", fmt.Sprintf("after a concurrent run with every call completed, held probe call %d of %d (watermark %d x %d channels) was not placed (%s): some channel still counts active streams", j+1, total, c.WM, n, p.Res))
			s.stop = true
			break
		}
		counts[p.Res.Conn]++
		if counts[p.Res.Conn] > int(c.WM) && n < max {
			s.vio("C02", "negative-stream-count", "concurrent", fmt.Sprintf("after a concurrent run with every call completed, sc%d accepted %d held calls with watermark %d while the pool could still grow: its count went negative", p.Res.Conn, counts[p.Res.Conn], c.WM))
			s.stop = true
			break
		}
	}
	if !s.stop {
		s.res.Count("heal_concurrent_fill_probe_done", 1)
	}
	for _, p := range held {
		if p.InFlight {
			s.finishCall(i, p, OutAppErr, nil)
			s.k.Quiesce()
			s.afterOp()
		}
	}
}

//go:norace
func (s *Sim) probeCallNoModel(i int, method int) *Call {
	c := &Call{ID: len(s.calls), Op: i, Method: method, MethodName: methodNames[method], PubIdx: -1}
	c.req = buildMsg(0, nil)
	c.reply = &Msg{}
	c.ctx, c.cancel = context.WithCancel(context.Background())
	c.tag = &TaskTag{Op: i, Phase: PhPick, Call: c.ID}
	s.calls = append(s.calls, c)
	c.task = s.k.Spawn(fmt.Sprintf("probe%d", c.ID), 0, c.tag, func() { s.callBody(c) })
	s.k.Quiesce()
	s.afterOp()
	return c
}

//go:norace
func (s *Sim) probeCall(i int, method int, keys []string) *Call {
	c := &Call{ID: len(s.calls), Op: i, Method: method, MethodName: methodNames[method], PubIdx: -1, ReqKeys: keys}
	c.req = buildMsg(s.plan.Cfg.Locator%len(locators), keys)
	c.reply = &Msg{}
	c.ctx, c.cancel = context.WithCancel(context.Background())
	c.tag = &TaskTag{Op: i, Phase: PhPick, Call: c.ID}
	s.calls = append(s.calls, c)
	c.task = s.k.Spawn(fmt.Sprintf("probe%d", c.ID), 0, c.tag, func() { s.callBody(c) })
	s.k.Quiesce()
	s.afterOp()
	return c
}

//go:norace
func (s *Sim) finish() {
	k := s.k
	// C17: the caller's configuration object was never touched.
	if s.callerCfg != nil && s.cfgSnap != nil && !proto.Equal(s.callerCfg.ApiConfig, s.cfgSnap) {
		s.vio("C17", "caller-config-mutated", "", fmt.Sprintf("caller's config changed from %v to %v", s.cfgSnap, s.callerCfg.ApiConfig))
	}
	// teardown: abort every task first, then release the contexts
	k.Shutdown()
	for _, c := range s.calls {
		if c.cancel != nil {
			c.cancel()
		}
	}
	res := s.res
	res.Count("fault:call_told_to_wait_picked_again_with_the_same_context", s.nRepicks)
	res.Count("fault:failed_call_attempted_again_with_the_same_context", s.nRetries)
	res.Count("fault:stream_call_attempted_again_with_the_same_context", s.nStreamRetries)
	res.Count("fault:stream_half_closed_before_retry", s.nHalfClosed)
	res.Steps = int(k.Steps())
	res.SimNanos = int64(k.Elapsed())
	res.Fingerprint = k.Fingerprint
	res.Switches, res.SwitchInOp = k.Switches, k.SwitchInOp
	res.Log = k.Log
	for _, n := range s.env.taskFired {
		s.env.Fired[n]++
	}
	for name, n := range s.env.Fired {
		res.Count("fault:"+name, n)
	}
	if s.model != nil {
		for name, n := range s.model.Probes {
			res.Count("probe:"+name, n)
		}
		res.States = s.model.States
	}
	for _, ev := range s.env.Events {
		res.Count("ev:"+ev.Kind.String(), 1)
	}
	res.Count("ops", len(s.plan.Ops))
	if k.Foreign > 0 {
		res.Count("foreign_yields", k.Foreign)
	}
	for _, t := range k.Tasks() {
		if t.State() == kern.BlockedReal {
			res.Count("tasks_blocked_real", 1)
		}
	}
}
