package poolsim

import (
	"encoding/json"
	"math/rand/v2"
	"testing"

	"verif.local/sim/simkit"
)

// Engine adapts poolsim to the generic worker.
type Engine struct{}

//go:norace
func (Engine) Name() string { return "poolsim" }

//go:norace
func (Engine) Generate(r *rand.Rand, profile string, concurrent bool, avoid map[string]bool) simkit.Plan {
	return Generate(r, profile, concurrent, Avoid{EmptyKeyList: avoid["empty_key_list"]})
}

//go:norace
func (Engine) Decode(b []byte) (simkit.Plan, error) {
	p := &Plan{}
	err := json.Unmarshal(b, p)
	return p, err
}

//go:norace
func (Engine) Strategy(p simkit.Plan, r *rand.Rand) simkit.Strategy {
	pl := p.(*Plan)
	if !pl.Concurrent || pl.Strategy == 0 {
		stick := 0.9
		if pl.Concurrent {
			stick = []float64{0.5, 0.8, 0.95}[r.IntN(3)]
		}
		return &simkit.RandomWalk{R: simkit.NewSM64(r.Uint64()), Stick: stick, Mix: 0.5}
	}
	if pl.Strategy >= 4 {
		return simkit.NewStall(simkit.NewSM64(r.Uint64()), 4+len(pl.Ops), 28, 0.8, 0.5)
	}
	return simkit.NewPCT(simkit.NewSM64(r.Uint64()), pl.Strategy, 60+len(pl.Ops)*12, 0.5)
}

//go:norace
func (Engine) Run(t *testing.T, p simkit.Plan, src *simkit.Source, log bool) *simkit.Result {
	return Run(t, p.(*Plan), src, Options{Log: log, Heal: true})
}

//go:norace
func (Engine) NOps(p simkit.Plan) int { return len(p.(*Plan).Ops) }

//go:norace
func (Engine) Remove(p simkit.Plan, i, j int) simkit.Plan {
	c := p.(*Plan).Clone()
	c.Ops = append(c.Ops[:i], c.Ops[j:]...)
	return c
}

//go:norace
func (Engine) Simplify(p simkit.Plan) []simkit.Plan {
	var out []simkit.Plan
	for _, x := range Simplify(p.(*Plan)) {
		out = append(out, x)
	}
	return out
}

var relevant = map[string][]string{
	"C01": {"probe:keyed_pick_home_ready", "probe:keyed_pick_home_down_nofallback", "probe:key_bound", "keyed_pick_started"},
	"C02": {"ev:PickReturn"},
	"C03": {"probe:pick_all_saturated", "ev:NewSubConn"},
	"C04": {"ev:UpdateState"},
	"C05": {"ev:PickReturn", "ev:OpEnd"},
	"C06": {"ev:PickReturn", "ev:OpEnd"},
	"C07": {"probe:client_deadline_completion", "probe:refresh_attempt", "fault:completion_client-deadline"},
	"C08": {"probe:keyed_pick_home_down_fallback", "keyed_pick_started"},
	"C09": {"probe:rr_pick", "probe:rr_pick_waiting", "rr_bind_pick_started"},
	"C10": {"ev:PickReturn"},
	"C12": {"ev:PickInvoke"},
	"C17": {"ev:PickReturn"},
	"C20": {"ev:UpdateAddresses", "fault:resolver_error"},
}

//go:norace
func (Engine) Relevant(res *simkit.Result, prop string) bool {
	for _, k := range relevant[prop] {
		if res.Counters[k] > 0 {
			return true
		}
	}
	return false
}
