package poolsim

import (
	"runtime"
	"sort"

	"verif.local/vsync/kern"
)

func isAbort(r any) bool           { return kern.IsAbort(r) }
func runtimeStack(b []byte) int    { return runtime.Stack(b, false) }
func sortStrings(s []string)       { sort.Strings(s) }
