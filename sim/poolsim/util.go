package poolsim

import (
	"runtime"
	"sort"

	"verif.local/vsync/kern"
)

//go:norace
func isAbort(r any) bool { return kern.IsAbort(r) }

//go:norace
func runtimeStack(b []byte) int { return runtime.Stack(b, false) }

//go:norace
func sortStrings(s []string) { sort.Strings(s) }
