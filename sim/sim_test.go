package sim

import (
	"encoding/json"
	"fmt"
	"os"
	"strings"
	"testing"

	"google.golang.org/grpc/grpclog"

	"verif.local/sim/gmesim"
	"verif.local/sim/mesim"
	"verif.local/sim/poolsim"
	"verif.local/sim/simkit"
	"verif.local/sim/streamsim"
)

func engines() map[string]simkit.Engine {
	return map[string]simkit.Engine{
		"poolsim":   poolsim.Engine{},
		"mesim":     mesim.Engine{},
		"gmesim":    gmesim.Engine{},
		"streamsim": streamsim.Engine{},
	}
}

type quiet struct{}

func (quiet) Info(args ...interface{})                    {}
func (quiet) Infoln(args ...interface{})                  {}
func (quiet) Infof(format string, args ...interface{})    {}
func (quiet) Warning(args ...interface{})                 {}
func (quiet) Warningln(args ...interface{})               {}
func (quiet) Warningf(format string, args ...interface{}) {}
func (quiet) Error(args ...interface{})                   {}
func (quiet) Errorln(args ...interface{})                 {}
func (quiet) Errorf(format string, args ...interface{})   {}
func (quiet) Fatal(args ...interface{})                   {}
func (quiet) Fatalln(args ...interface{})                 {}
func (quiet) Fatalf(format string, args ...interface{})   {}

// V answers from the run's verbosity (a fault dimension: code under
// "if log.V(...)" runs only at high verbosity); output is discarded either way.
func (quiet) V(l int) bool { return simkit.VerboseLogs(l) }

func TestMain(m *testing.M) {
	// The logger is replaced by a no-op: no pointer values in output, and the
	// logger's mutex cannot act as an accidental happens-before edge.
	grpclog.SetLoggerV2(quiet{})
	os.Exit(m.Run())
}

// TestSim is the worker entry point: SIM_ENGINE selects the engine, SIM_MODE
// search | replay | trace.
func TestSim(t *testing.T) {
	name := os.Getenv("SIM_ENGINE")
	if name == "" {
		t.Skip("SIM_ENGINE not set")
	}
	eng := engines()[name]
	if eng == nil {
		t.Fatalf("unknown engine %q", name)
	}
	switch os.Getenv("SIM_MODE") {
	case "replay":
		path := os.Getenv("SIM_REPLAY")
		ok, res, rp, err := simkit.RunReplay(t, eng, path, os.Getenv("SIM_LOG") != "")
		if err != nil {
			fmt.Printf("REPLAY-ERROR %v\n", err)
			os.Exit(2)
		}
		if res.Harness != "" {
			fmt.Printf("REPLAY-HARNESS %s\n", res.Harness)
			os.Exit(2)
		}
		if os.Getenv("SIM_LOG") != "" {
			fmt.Println(strings.Join(res.Log, "\n"))
		}
		out := map[string]any{"reproduced": ok, "sig": rp.Sig, "property": rp.Property, "violations": res.Violations}
		b, _ := json.Marshal(out)
		fmt.Printf("REPLAY-RESULT %s\n", b)
		if ok {
			fmt.Printf("REPRODUCED property=%s sig=%s\n", rp.Property, rp.Sig)
		} else {
			fmt.Printf("NOT-REPRODUCED property=%s sig=%s\n", rp.Property, rp.Sig)
		}
	case "trace":
		// Determinism self-test: print the full event log of the runs of a seed.
		cfg := simkit.CfgFromEnv()
		n := cfg.MaxRuns
		if n == 0 {
			n = 5
		}
		for iter := uint64(0); iter < uint64(n); iter++ {
			r := simkit.NewRand(cfg.Seed, iter)
			conc := int(r.IntN(100)) < cfg.ConcPct
			plan := eng.Generate(r, cfg.Profile, conc, cfg.Avoid)
			res := eng.Run(t, plan, simkit.NewSearch(eng.Strategy(plan, r)), true)
			fmt.Printf("TRACE iter=%d fingerprint=%x steps=%d harness=%q\n", iter, res.Fingerprint, res.Steps, res.Harness)
			for _, l := range res.Log {
				fmt.Println(l)
			}
			for _, v := range res.Violations {
				fmt.Println("V", v.Sig)
			}
		}
	default:
		cfg := simkit.CfgFromEnv()
		fr := simkit.RunWorker(t, eng, cfg)
		fmt.Printf("worker done runs=%d violations=%d harness=%d\n", fr.Runs, len(fr.Violations), len(fr.Harness))
	}
}
