// Package gmesim simulates GCPMultiEndpoint (with the real multiendpoint
// package inside): reconfigurations, endpoint outages, RPCs with no / known /
// unknown MultiEndpoint name, dial failures, invalid option sets, Close.
//
// Real code: gcp_multiendpoint.go, multiendpoint/*.go. Stub: the per-endpoint
// *grpc.ClientConn (fake pool connection behind the vsync.PoolConn seam, R7)
// and the dialer. Monitor goroutines are kernel tasks (R3).
package gmesim

import (
	"context"
	"encoding/json"
	"errors"
	"fmt"
	"math/rand/v2"
	"runtime"
	"sort"
	"strings"
	"testing"
	"time"

	"google.golang.org/grpc"
	"google.golang.org/grpc/connectivity"
	"google.golang.org/grpc/metadata"
	"google.golang.org/protobuf/encoding/protojson"
	"google.golang.org/protobuf/proto"

	"github.com/GoogleCloudPlatform/grpc-gcp-go/grpcgcp"
	pb "github.com/GoogleCloudPlatform/grpc-gcp-go/grpcgcp/grpc_gcp"
	"github.com/GoogleCloudPlatform/grpc-gcp-go/grpcgcp/multiendpoint"

	"verif.local/sim/simkit"
	"verif.local/vsync"
	"verif.local/vsync/kern"
)

const (
	OpUpdate = iota
	OpPool
	OpRPC
	OpAdvance
	OpConfig
	OpSteps
	nOps
)

// The empty string is a legal MultiEndpoint name, distinct from a context that
// names no MultiEndpoint at all (noName, harness-side only).
var meNames = []string{"default", "read", "write", ""}

const noName = "\x00no-name"

// (one endpoint name is the comma-join of two others: names are opaque strings)
// and one differs from another in letter case only
var epNames = func() []string {
	// (one name is the comma-join of two others, one differs from another in letter
	// case only, one is another spelling - with the resolver scheme - of the target
	// of another: all are distinct endpoints for the library)
	n := []string{"e0:443", "e1:443", "e0:443,e1:443", "E0:443", "dns:///e1:443"}
	// 5.. are used by "many endpoints" plans only (index e is taken modulo 5 otherwise)
	for i := 5; i < 24; i++ {
		n = append(n, fmt.Sprintf("e%d:443", i))
	}
	return n
}()

// epMod: how many of the endpoint names a plan's indexes range over.
var epMod = 5

type MESpec struct {
	Name int   `json:"name"`
	Eps  []int `json:"eps"`
	RMs  int   `json:"r_ms"`
	DMs  int   `json:"d_ms"`
}

type OptsSpec struct {
	MEs      []MESpec `json:"mes"`
	Default  int      `json:"default"`
	BadDef   bool     `json:"bad_default,omitempty"` // default name without options
	EmptyME  int      `json:"empty_me,omitempty"`    // 1+index of the ME whose endpoint list is emptied
	DialFail int      `json:"dial_fail,omitempty"`   // the n-th dial of this update fails (1-based)
}

type Op struct {
	K    int       `json:"k"`
	Opts *OptsSpec `json:"opts,omitempty"`
	A    int       `json:"a,omitempty"`
	B    int       `json:"b,omitempty"`
	N    int       `json:"n,omitempty"`
	ID   int       `json:"id,omitempty"`
	// Par (concurrent plans): this update is issued from a goroutine of its own,
	// not serialized with the other updates
	Par bool `json:"par,omitempty"`
}

type Plan struct {
	Profile    string   `json:"profile"`
	Init       OptsSpec `json:"init"`
	Concurrent bool     `json:"concurrent"`
	Strategy   int      `json:"strategy"`
	Ops        []Op     `json:"ops"`
	// Verbose: gRPC log verbosity 99 for this run; OldCtor: constructed through
	// the deprecated NewGcpMultiEndpoint alias
	Verbose bool `json:"verbose,omitempty"`
	OldCtor bool `json:"old_ctor,omitempty"`
	// Alias: the application reuses one options object, edited in place
	Alias bool `json:"alias,omitempty"`
	// Twin: a second, independent GCPMultiEndpoint lives in the same process and
	// the application uses the same context objects for RPCs on both
	Twin bool `json:"twin,omitempty"`
	// CfgKind: shape of the GRPCgcpConfig handed over (0 full, 1 no channel pool,
	// 2 empty, 3 nil, 4 methods only)
	CfgKind int `json:"cfg_kind,omitempty"`
	// Shared: all endpoint lists of one call are windows into one array owned by
	// the application, each with the following lists in its spare capacity
	Shared bool `json:"shared,omitempty"`
	// Tick: the clock read by the library moves 1 ns with every reading
	Tick bool `json:"tick,omitempty"`
	// SlowDial: the n-th dial of the run takes SlowMs of simulated time
	SlowDial int `json:"slow_dial,omitempty"`
	SlowMs   int `json:"slow_ms,omitempty"`
	// UserSC: the caller's dial options carry a default service config of their own (1 pick_first, 2 another grpc_gcp pool configuration)
	UserSC int `json:"user_sc,omitempty"`
	// ManyEps: MultiEndpoints over up to 24 endpoints (updates that dial a dozen pools)
	ManyEps bool `json:"many_eps,omitempty"`
	// OwnerClose: before Close() the application closes some pool connections itself
	OwnerClose bool `json:"owner_close,omitempty"`
}

//go:norace
func (p *Plan) Clone() *Plan {
	b, _ := json.Marshal(p)
	c := &Plan{}
	json.Unmarshal(b, c)
	return c
}

//go:norace
func genOpts(r *rand.Rand, faults bool, timed bool) OptsSpec {
	o := OptsSpec{}
	n := 1 + r.IntN(3)
	names := r.Perm(3)[:n]
	if r.IntN(5) == 0 {
		names[r.IntN(n)] = 3 // a MultiEndpoint whose name is the empty string
	}
	sort.Ints(names)
	for _, nm := range names {
		k := 1 + r.IntN(4)
		me := MESpec{Name: nm, Eps: r.Perm(5)[:k]}
		if timed && r.IntN(3) == 0 {
			me.RMs = []int{0, 10, 30}[r.IntN(3)]
			me.DMs = []int{0, 10, 30}[r.IntN(3)]
			if r.IntN(8) == 0 {
				// negative durations are accepted like any other value (timers fire at once)
				if r.IntN(2) == 0 {
					me.RMs = -5
				} else {
					me.DMs = -5
				}
			}
		}
		o.MEs = append(o.MEs, me)
	}
	o.Default = names[r.IntN(len(names))]
	if faults {
		switch r.IntN(6) {
		case 0:
			o.BadDef = true
		case 1:
			o.EmptyME = 1 + r.IntN(len(o.MEs))
		case 2, 3:
			o.DialFail = 1 + r.IntN(3)
		}
	}
	return o
}

//go:norace
func Generate(r *rand.Rand, profile string, concurrent bool, avoid map[string]bool) *Plan {
	p := &Plan{Profile: profile, Concurrent: concurrent, Verbose: r.IntN(8) == 0, OldCtor: r.IntN(6) == 0, Alias: !concurrent && r.IntN(4) == 0, Twin: !concurrent && r.IntN(5) == 0}
	if r.IntN(3) == 0 {
		p.CfgKind = 1 + r.IntN(4)
	}
	p.Shared = !p.Alias && r.IntN(4) == 0
	p.OwnerClose = r.IntN(5) == 0
	p.ManyEps = !concurrent && r.IntN(10) == 0
	if r.IntN(3) == 0 {
		p.UserSC = 1 + r.IntN(2)
	}
	if !concurrent && r.IntN(8) == 0 {
		p.SlowDial, p.SlowMs = 1+r.IntN(8), []int{25000, 61000}[r.IntN(2)]
	}
	p.Tick = r.IntN(3) == 0
	bad := profile == "gmebad"
	p.Init = genOpts(r, bad && r.IntN(4) == 0, true)
	if concurrent {
		p.Strategy = r.IntN(6) // 0 random walk, 1-3 PCT depth, 4-5 one long stall
	}
	n := 5 + r.IntN(25)
	for i := 0; i < n; i++ {
		o := Op{}
		switch x := r.IntN(100); {
		case x < 18:
			o.K = OpUpdate
			f := bad && r.IntN(2) == 0
			if !bad && r.IntN(10) == 0 {
				f = true
			}
			if avoid["bad_update"] && r.IntN(4) > 0 {
				f = false
			}
			sp := genOpts(r, f, true)
			o.Opts = &sp
			o.Par = concurrent && r.IntN(3) == 0
		case x < 50:
			o.K = OpPool
			o.A = r.IntN(5)
			o.B = r.IntN(4)
		case x < 85:
			o.K = OpRPC
			o.A = r.IntN(6) // context name: 0 none, 1..3 names, 4 unknown, 5 the empty name
			o.B = r.IntN(2) // unary / stream
			if !concurrent && r.IntN(8) == 0 {
				o.B = 2 // unary, and it stays in flight until the end of the run
			}
		case x < 93:
			o.K = OpAdvance
			o.A = []int{1, 10, 30, 100}[r.IntN(4)]
			if r.IntN(5) == 0 {
				// a quiet period: nothing happens for half a minute to a day
				o.A = []int{31000, 61000, 600000, 3600000, 86400000}[r.IntN(5)]
			}
		case x < 97:
			o.K = OpConfig
		default:
			o.K = OpSteps
			o.A = 1 + r.IntN(20)
		}
		if concurrent {
			o.N = r.IntN(10)
		}
		o.ID = i + 1
		p.Ops = append(p.Ops, o)
	}
	if p.ManyEps {
		// every option set names many more endpoints (and pool events reach them)
		widen := func(sp *OptsSpec) {
			for i := range sp.MEs {
				k := 6 + r.IntN(10)
				sp.MEs[i].Eps = r.Perm(24)[:k]
			}
			if sp.DialFail > 0 {
				sp.DialFail = 1 + r.IntN(20)
			}
		}
		widen(&p.Init)
		for i := range p.Ops {
			if p.Ops[i].Opts != nil {
				widen(p.Ops[i].Opts)
			}
			if p.Ops[i].K == OpPool {
				p.Ops[i].A = r.IntN(24)
			}
		}
	}
	if concurrent {
		// bursts assume that otherwise valid options are accepted: no negative durations there
		pos := func(sp *OptsSpec) {
			for i := range sp.MEs {
				if sp.MEs[i].RMs < 0 {
					sp.MEs[i].RMs = 0
				}
				if sp.MEs[i].DMs < 0 {
					sp.MEs[i].DMs = 0
				}
			}
		}
		pos(&p.Init)
		for i := range p.Ops {
			if p.Ops[i].Opts != nil {
				pos(p.Ops[i].Opts)
			}
		}
	}
	return p
}

// ---------------------------------------------------------------- fakes

type fakePool struct {
	ownerClosed bool
	s           *sim
	endpoint    string
	id          int
	state       connectivity.State
	ch          chan struct{}
	closed      int
	rpcs        int
	// configuration index (position in sim.cfgHist) being applied when the pool
	// was dialled / closed; closedCfg < 0: not closed by an update
	openedCfg, closedCfg int
	closedBy             *cfgRec // the update whose task closed the pool (nil: Close(), or none)
}

type rpcRec struct {
	pool      *fakePool
	name      string
	wasClosed bool
	seq       int
	// concurrent bursts: configurations that may have been in effect while the
	// RPC ran: [lower, upper] = [updates completed when it was invoked, updates
	// started when it reached a pool]
	conc         bool
	lower, upper int
	ti, tr       int // harness event sequence numbers: invoked / reached a pool
}

type lowKey struct{}

type cfgRec struct {
	mes map[string]MESpec
	def string
	// harness event sequence numbers: the update's task began to run / returned
	// (-1: not yet); the construction has 0/0
	startSeq, doneSeq int
	task              *kern.Task
}

type rpcInfo struct{ lower, ti int }

//go:norace
func (p *fakePool) record(ctx context.Context) {
	p.s.k.Yield("pool:rpc")
	p.rpcs++
	name, named := grpcgcp.FromMEContext(ctx)
	if !named {
		name = noName
	}
	rec := rpcRec{pool: p, name: name, wasClosed: p.closed > 0, seq: len(p.s.rpcs)}
	if ri, ok := ctx.Value(lowKey{}).(rpcInfo); ok {
		p.s.seq++
		rec.conc, rec.lower, rec.upper, rec.ti, rec.tr = true, ri.lower, len(p.s.cfgHist)-1, ri.ti, p.s.seq
	}
	p.s.rpcs = kern.Push(p.s.rpcs, rec)
}

//go:norace
func (p *fakePool) Invoke(ctx context.Context, method string, args, reply interface{}, opts ...grpc.CallOption) error {
	p.record(ctx)
	if h, ok := ctx.Value(holdKey{}).(*heldCall); ok {
		// a call that stays in flight inside the pool until the harness lets it return
		h.pool = p
		p.s.k.Wait(&h.w)
	}
	return nil
}

type holdKey struct{}

type heldCall struct {
	w    kern.Waiter
	pool *fakePool
	c    *callRec
}

type fakeStream struct {
	grpc.ClientStream
	ctx context.Context
}

//go:norace
func (f *fakeStream) Context() context.Context { return f.ctx }

//go:norace
func (f *fakeStream) SendMsg(m interface{}) error { return nil }

//go:norace
func (f *fakeStream) RecvMsg(m interface{}) error { return nil }

//go:norace
func (f *fakeStream) CloseSend() error { return nil }

//go:norace
func (f *fakeStream) Header() (metadata.MD, error) { return nil, nil }

//go:norace
func (f *fakeStream) Trailer() metadata.MD { return nil }

//go:norace
func (p *fakePool) NewStream(ctx context.Context, desc *grpc.StreamDesc, method string, opts ...grpc.CallOption) (grpc.ClientStream, error) {
	p.record(ctx)
	return &fakeStream{ctx: ctx}, nil
}

//go:norace
func (p *fakePool) GetState() connectivity.State {
	p.s.k.Yield("pool:GetState")
	return p.state
}

//go:norace
func (p *fakePool) WaitForStateChange(ctx context.Context, src connectivity.State) bool {
	// Mirrors grpc-go's ClientConn.WaitForStateChange (clientconn.go): take the
	// notification channel, return at once if the state already differs, else
	// wait for ANY state change notification or the end of the context.
	ch := p.ch
	if p.state != src {
		return true
	}
	return vsync.Select(false, vsync.Recv(ctx.Done()), vsync.Recv(ch)) != 0
}

var errPoolClosing = errors.New("grpc: the client connection is closing")

// ownerClose: the application, which dialled this connection in its DialFunc,
// closes it itself. From then on the connection is in SHUTDOWN for good and
// Close() reports the error grpc reports for a connection already closed.
//
//go:norace
func (p *fakePool) ownerClose() {
	p.ownerClosed = true
	p.setState(connectivity.Shutdown)
}

//go:norace
func (p *fakePool) Close() error {
	p.s.k.Yield("pool:Close")
	if p.ownerClosed {
		p.closed++
		return errPoolClosing
	}
	if p.closed == 0 {
		p.closedCfg = p.s.curUpd
		me := p.s.k.Me()
		for _, c := range p.s.cfgHist {
			if c.task != nil && c.task == me {
				p.closedBy = c
			}
		}
	}
	p.closed++
	p.setState(connectivity.Shutdown)
	return nil
}

//go:norace
func (p *fakePool) setState(st connectivity.State) {
	if p.state == st {
		return
	}
	p.s.k.Logf("pool %s#%d state %v -> %v", p.endpoint, p.id, p.state, st)
	p.state = st
	close(p.ch)
	p.ch = make(chan struct{})
	p.s.k.Bump()
}

// ---------------------------------------------------------------- sim

type sim struct {
	plan     *Plan
	k        *kern.Kernel
	res      *simkit.Result
	gme      *grpcgcp.GCPMultiEndpoint
	pools    []*fakePool // every pool ever dialled
	rpcs     []rpcRec
	libTasks []*kern.Task

	dialN     int // dials in the current update
	dialFail  int
	dialLog   []string
	nDialFail int

	// model
	mes       map[string]MESpec // accepted configuration
	prevME    map[string]MESpec
	def       string
	cfg       *pb.ApiConfig
	cfgSnap   *pb.ApiConfig
	opIdx     int
	stop      bool
	closedAll bool
	rejected  int
	pub       int32
	monBase   float64
	hintOp    int
	hintN     uint64

	// concurrent bursts: history of accepted configurations, the one being
	// applied by the (serialized) update task and the number of completed updates
	solo               bool // probes run as the only released task
	twin               *grpcgcp.GCPMultiEndpoint
	twinPools          []*fakePool
	twinTasks          []*kern.Task
	ctxs               map[string]context.Context // one context object per name, shared by all calls and both instances
	lastOpts           *grpcgcp.GCPMultiEndpointOptions
	own                *grpcgcp.GCPMultiEndpointOptions // plan.Alias: the application's one options object
	master, masterWant []string
	holds              []*heldCall
	dialTotal          int
	slowHit            bool // the slow dial has started (updates concerned may be rejected or take long)
	userOpts           []grpc.DialOption
	twinCfg            *pb.ApiConfig
	cfgBad             string // first pool dialled with a configuration that is not the instance's
	nDialCfgJudged     int
	nDialCfgUnknown    int
	cfgHist            []*cfgRec
	seq                int // harness event sequence (concurrent bursts)
	parUsed            bool
	lastSpec           *OptsSpec
	concCalls          []*callRec
	curUpd             int
	updDone            int
	judgedTo           int
}

//go:norace
func (s *sim) vio(prop, rule, facts, msg string) {
	sig := prop + "|" + rule
	if facts != "" {
		sig += "|" + facts
	}
	s.res.Violations = append(s.res.Violations, simkit.Violation{Property: prop, Rule: rule, Sig: sig, Msg: msg, Op: s.opIdx})
	s.k.Logf("VIOLATION %s %s", sig, msg)
	s.stop = true
}

//go:norace
func (s *sim) openPool(ep string) *fakePool {
	var last *fakePool
	for _, p := range s.pools {
		if p.endpoint == ep && p.closed == 0 {
			last = p
		}
	}
	return last
}

//go:norace
func (s *sim) dial(ctx context.Context, target string, dopts ...grpc.DialOption) (vsync.PoolConn, error) {
	s.k.Yield("dial")
	s.dialN++
	s.dialTotal++
	if s.plan.SlowDial > 0 && s.dialTotal == s.plan.SlowDial && !s.plan.Concurrent {
		// a dial that takes half a minute or more (a blocking dial to an endpoint
		// that is slow to come up) and ignores its context, then succeeds
		s.slowHit = true
		s.k.Sleep(time.Duration(s.plan.SlowMs) * time.Millisecond)
	}
	s.dialLog = kern.Push(s.dialLog, target)
	if s.dialFail > 0 && s.dialN == s.dialFail {
		s.nDialFail++
		return nil, errors.New("simulated dial failure for " + target)
	}
	s.dialConfig(dopts, s.cfgSnap, "")
	p := &fakePool{s: s, endpoint: target, id: len(s.pools), state: connectivity.Idle, ch: make(chan struct{}), openedCfg: s.curUpd, closedCfg: -1}
	s.pools = kern.Push(s.pools, p)
	return p, nil
}

// dialConfig: the channel-pool configuration a pool is dialled with (C17: the
// effective configuration equals the supplied one). The library conveys it as
// the default service config among the dial options; when those carry one
// naming the grpc_gcp balancer, it must be the configuration this instance
// was given - at construction and for every pool dialled later. (Dial options
// without such a service config are not judged.) Runs on the dialling task;
// a mismatch is recorded and reported by the scheduler side (cfgBad).
//
//go:norace
func (s *sim) dialConfig(dopts []grpc.DialOption, want *pb.ApiConfig, who string) {
	js, ok := defaultServiceConfigOf(dopts)
	if !ok {
		s.nDialCfgUnknown++
		return
	}
	if js == "" {
		// readable dial options that carry no default service config at all: gRPC has
		// no other way to make a channel use the grpc_gcp balancer with a
		// configuration, so this pool runs without the one the instance was given
		s.nDialCfgJudged++
		if s.cfgBad == "" {
			s.cfgBad = who + "a pool was dialled with dial options that carry no service config: it cannot run with the channel-pool configuration this instance was given"
		}
		return
	}
	var sc struct {
		LB []map[string]json.RawMessage `json:"loadBalancingConfig"`
	}
	if json.Unmarshal([]byte(js), &sc) != nil {
		s.nDialCfgUnknown++
		return
	}
	for _, e := range sc.LB {
		raw, ok := e[grpcgcp.Name]
		if !ok {
			continue
		}
		got := &pb.ApiConfig{}
		if err := protojson.Unmarshal(raw, got); err != nil {
			s.nDialCfgUnknown++
			return
		}
		w := want
		if w == nil {
			w = &pb.ApiConfig{}
		}
		s.nDialCfgJudged++
		if !proto.Equal(got, w) && s.cfgBad == "" {
			s.cfgBad = fmt.Sprintf("%sa pool was dialled with the channel-pool configuration %s; this instance was given %s", who, canonJSON(got), canonJSON(w))
		}
		if lastResolverSCOff == resolverSCOn && s.cfgBad == "" {
			// the configuration is only the DEFAULT service config of the pool's channel
			// and the channel accepts service configs from its resolver (DNS TXT records
			// are looked up by default): whatever the resolver delivers replaces it
			s.cfgBad = who + "a pool was dialled with the instance's configuration as default service config but without switching off service configs from the resolver (grpc.WithDisableServiceConfig): a resolver that delivers one overrides the configuration this instance was given"
		}
		return
	}
	if len(sc.LB) > 0 {
		// a readable load-balancing list without a grpc_gcp entry
		s.nDialCfgJudged++
		if s.cfgBad == "" {
			s.cfgBad = who + "a pool was dialled with the service config " + js + ", which does not select the grpc_gcp balancer: it cannot run with the channel-pool configuration this instance was given"
		}
		return
	}
	s.nDialCfgUnknown++
}

// canonJSON renders a message deterministically (protojson output is not).
//
//go:norace
func canonJSON(m proto.Message) string {
	b, err := protojson.Marshal(m)
	if err != nil {
		return "?"
	}
	var v interface{}
	if json.Unmarshal(b, &v) != nil {
		return "?"
	}
	out, _ := json.Marshal(v)
	return string(out)
}

// userDialOpts: the application's own dial options - ONE slice with spare
// capacity, passed as opts... to every constructor (both instances) and reused
// by the application afterwards (it appends further options for a channel of
// its own). A library that appends to the slice it was given shares the array.
//
//go:norace
func (s *sim) userDialOpts() []grpc.DialOption {
	if s.userOpts == nil {
		s.userOpts = make([]grpc.DialOption, 0, 8)
		s.userOpts = append(s.userOpts, grpc.WithUserAgent("app"), grpc.WithAuthority("authority.example"))
		switch s.plan.UserSC {
		case 1:
			// the application's own default service config (what its other channels
			// use): the instance's configuration must still be what its pools run with
			s.userOpts = append(s.userOpts, grpc.WithDefaultServiceConfig(`{"loadBalancingConfig": [{"pick_first":{}}]}`))
			s.res.Count("fault:caller_dial_options_carry_a_service_config", 1)
		case 2:
			s.userOpts = append(s.userOpts, grpc.WithDefaultServiceConfig(`{"loadBalancingConfig": [{"grpc_gcp":{"channelPool":{"maxSize":9,"minSize":9}}}]}`))
			s.res.Count("fault:caller_dial_options_carry_a_service_config", 1)
		}
	}
	return s.userOpts
}

// reuseDialOpts: after a constructor has returned the application builds the
// option list of another channel from the same slice.
//
//go:norace
func (s *sim) reuseDialOpts() {
	if s.userOpts == nil {
		return
	}
	other := append(s.userOpts, grpc.WithDisableServiceConfig(),
		grpc.WithDefaultServiceConfig(`{"loadBalancingConfig": [{"grpc_gcp":{"channelPool":{"maxSize":9,"minSize":9}}}]}`),
		grpc.WithUserAgent("another-channel"), grpc.WithAuthority("another.example"), grpc.WithBlock())
	_ = other
	s.res.Count("fault:caller_reuses_its_dial_option_slice", 1)
}

//go:norace
func (s *sim) buildOpts(o OptsSpec) *grpcgcp.GCPMultiEndpointOptions {
	fresh := s.buildOptsFresh(o)
	if !s.plan.Alias || s.plan.Concurrent || kern.RaceBuild {
		return fresh // (race builds: the in-place edits below are map writes on the scheduler goroutine)
	}
	// The application keeps ONE options object, edits it in place (endpoint
	// slices rewritten element by element when the length fits) and passes it
	// again: legal use, the library may not keep references into it.
	if s.own == nil {
		s.own = fresh
		s.lastOpts = nil
		return s.own
	}
	for name := range s.own.MultiEndpoints {
		if _, ok := fresh.MultiEndpoints[name]; !ok {
			delete(s.own.MultiEndpoints, name)
		}
	}
	for name, nme := range fresh.MultiEndpoints {
		old, ok := s.own.MultiEndpoints[name]
		if !ok {
			s.own.MultiEndpoints[name] = nme
			continue
		}
		if len(old.Endpoints) == len(nme.Endpoints) && len(nme.Endpoints) > 0 {
			for i := range nme.Endpoints {
				old.Endpoints[i] = nme.Endpoints[i]
			}
			s.res.Count("fault:caller_edits_its_options_in_place", 1)
		} else {
			old.Endpoints = nme.Endpoints
		}
		old.RecoveryTimeout, old.SwitchingDelay = nme.RecoveryTimeout, nme.SwitchingDelay
	}
	s.own.Default = fresh.Default
	s.lastOpts = nil // no scribbling over the object that is going to be reused
	return s.own
}

//go:norace
func (s *sim) buildOptsFresh(o OptsSpec) *grpcgcp.GCPMultiEndpointOptions {
	mo := &grpcgcp.GCPMultiEndpointOptions{
		GRPCgcpConfig:  s.cfg,
		MultiEndpoints: map[string]*multiendpoint.MultiEndpointOptions{},
		Default:        meNames[o.Default%4],
		DialFunc:       s.dial,
	}
	// With plan.Shared every endpoint list is a window into ONE array owned by the
	// application, with the following lists in its spare capacity: a library that
	// appends to a list it was given writes into its neighbours.
	var master []string
	if s.plan.Shared {
		master = make([]string, 0, 64)
	}
	for i, me := range o.MEs {
		eps := []string{}
		for _, e := range me.Eps {
			eps = append(eps, epNames[e%epMod])
		}
		if o.EmptyME == i+1 {
			eps = []string{}
		}
		if master != nil && len(eps) > 0 {
			start := len(master)
			master = append(master, eps...)
			eps = master[start:len(master)]
		}
		mo.MultiEndpoints[meNames[me.Name%4]] = &multiendpoint.MultiEndpointOptions{
			Endpoints: eps, RecoveryTimeout: time.Duration(me.RMs) * time.Millisecond, SwitchingDelay: time.Duration(me.DMs) * time.Millisecond}
	}
	if o.BadDef {
		mo.Default = "nosuch"
	}
	s.lastOpts = mo
	if master != nil {
		s.master = master
		s.masterWant = append([]string{}, master...)
	}
	return mo
}

// masterCheck: the call has returned; was the application's endpoint array
// written to? No statement forbids that by itself (only the routing "as
// configured" that follows from it is judged), so this is a reach probe: the
// expected routing keeps following the lists as they were passed in.
//
//go:norace
func (s *sim) masterCheck(when string) {
	if s.master == nil || s.stop {
		return
	}
	for i := range s.masterWant {
		if s.master[i] != s.masterWant[i] {
			s.res.Count("probe:caller_endpoint_array_overwritten", 1)
			s.k.Logf("note: %s: the application's endpoint array was %v when passed in and is %v after the call", when, s.masterWant, s.master[:len(s.masterWant)])
			break
		}
	}
	s.master, s.masterWant = nil, nil
}

// scribbleOpts: the call that received the options has returned; the
// application reuses its option objects - endpoint slices overwritten, map
// emptied, default renamed. The library must not depend on them any more.
//
//go:norace
func (s *sim) scribbleOpts() {
	mo := s.lastOpts
	if mo == nil || s.plan.Concurrent {
		return
	}
	s.lastOpts = nil
	for name, me := range mo.MultiEndpoints {
		for i := range me.Endpoints {
			me.Endpoints[i] = fmt.Sprintf("scribbled-%d:1", i)
		}
		me.RecoveryTimeout, me.SwitchingDelay = 12345*time.Hour, 54321*time.Hour
		if !kern.RaceBuild {
			// (the runtime's map functions report to the race detector even from here,
			// and nothing orders the scheduler goroutine after the task that read the
			// map: a harness-made report, met once a slow dial had moved the clock
			// between the two)
			delete(mo.MultiEndpoints, name)
		}
	}
	mo.Default = "scribbled"
	s.res.Count("fault:caller_overwrites_its_options_after_the_call", 1)
}

//go:norace
func invalid(o OptsSpec) bool { return o.BadDef || o.EmptyME > 0 }

// negDur: some MultiEndpoint has a negative recovery timeout or switching delay.
// The statements list the invalid option kinds without it: accepting such options
// (a negative duration is a timer that fires at once) and rejecting them are both
// allowed; a rejection is held to C16's "nothing changed, nothing left behind".
//
//go:norace
func negDur(o OptsSpec) bool {
	for _, me := range o.MEs {
		if me.RMs < 0 || me.DMs < 0 {
			return true
		}
	}
	return false
}

// call runs fn as a task; returns false if it panicked.
//
//go:norace
func (s *sim) call(name string, group int, fn func()) (po *callRec) {
	po = &callRec{name: name}
	s.hint()
	po.t = s.k.Spawn(name, group, nil, func() {
		defer func() {
			if r := recover(); r != nil {
				if kern.IsAbort(r) {
					panic(r)
				}
				po.panicked = fmt.Sprint(r)
				buf := make([]byte, 4096)
				po.stack = string(buf[:runtimeStack(buf)])
			}
			po.done = true
		}()
		kern.HBAcquire(&s.pub) // the application publishes the constructed object properly
		fn()
		if name == "New" || name == "NewTwin" {
			kern.HBRelease(&s.pub)
		}
	})
	return po
}

type callRec struct {
	reported bool
	name     string
	t        *kern.Task
	done     bool
	panicked string
	stack    string
}

//go:norace
func Run(t *testing.T, plan *Plan, src *simkit.Source, logOn bool) *simkit.Result {
	res := &simkit.Result{}
	simkit.SetVerbose(plan.Verbose)
	defer simkit.SetVerbose(false)
	if plan.Verbose {
		res.Count("fault:verbose_logging", 1)
	}
	h := simkit.Bubble(t, func() {
		s := &sim{plan: plan, res: res, mes: map[string]MESpec{}}
		s.run(src, logOn)
	})
	if h != "" && res.Harness == "" {
		res.Harness = h
	}
	res.Tape = src.Recorded()
	return res
}

//go:norace
func (s *sim) kernelFailure() {
	if s.cfgBad != "" && !s.stop {
		s.vio("C17", "pool-dialled-with-foreign-config", "", s.cfgBad)
	}
	f := s.k.Fail
	if f == nil {
		return
	}
	s.k.Fail = nil
	fn := simkit.FuncOfStack(f.Stack)
	switch f.Kind {
	case "relock", "lockleak", "spin":
		s.vio("C16", "lock-"+f.Kind, fn, f.Task+": "+f.Msg)
	case "panic":
		s.vio("C16", "panic", fn, fmt.Sprintf("panic in %s (library goroutine): %s", fn, f.Msg))
	default:
		s.res.Harness = f.Kind + ": " + f.Msg
		s.stop = true
	}
}

//go:norace
func (s *sim) panicked(c *callRec, what string) bool {
	if c.panicked == "" {
		return false
	}
	fn := simkit.FuncOfStack(c.stack)
	s.vio("C16", "panic", fn, fmt.Sprintf("%s panicked in %s: %s", what, fn, c.panicked))
	return true
}

//go:norace
func (s *sim) run(src *simkit.Source, logOn bool) {
	k := kern.New(src)
	k.LogOn = logOn
	k.OpYields = 3000
	k.MaxSteps = 100000
	epMod = 5
	if s.plan.ManyEps {
		epMod = len(epNames)
		k.MaxSteps = 400000
	}
	if s.plan.Tick {
		k.TickNs = 1
	}
	s.k = k
	k.OnSpawn = func(parent, child *kern.Task) {
		if child.Name == "go" {
			if parent != nil && parent.Name == "NewTwin" {
				s.twinTasks = kern.Push(s.twinTasks, child) // the second instance's monitors
			} else {
				s.libTasks = kern.Push(s.libTasks, child)
			}
		}
	}
	k.Install()
	defer k.Uninstall()
	src.Segment(0)
	s.opIdx = -1
	s.cfg = &pb.ApiConfig{ChannelPool: &pb.ChannelPoolConfig{MinSize: 2, MaxSize: 3, MaxConcurrentStreamsLowWatermark: 10},
		Method: []*pb.MethodConfig{{Name: []string{"/svc/Bind"}, Affinity: &pb.AffinityConfig{Command: pb.AffinityConfig_BIND, AffinityKey: "name"}}}}
	switch s.plan.CfgKind {
	case 1: // no channel-pool section
		s.cfg.ChannelPool = nil
	case 2: // empty message
		s.cfg = &pb.ApiConfig{}
	case 3: // no configuration object at all
		s.cfg = nil
	case 4: // method entries only, one of them without an affinity section
		s.cfg.ChannelPool = nil
		s.cfg.Method = append(s.cfg.Method, &pb.MethodConfig{Name: []string{"/svc/A", "/svc/B"}})
	}
	if s.plan.CfgKind != 0 {
		s.res.Count("fault:unusual_pool_config_shape", 1)
	}
	s.cfgSnap = proto.Clone(s.cfg).(*pb.ApiConfig)

	// construction
	init := s.plan.Init
	s.dialN, s.dialFail = 0, init.DialFail
	var err error
	c := s.call("New", 1, func() {
		if s.plan.OldCtor {
			s.gme, err = grpcgcp.NewGcpMultiEndpoint(s.buildOpts(init), s.userDialOpts()...)
		} else {
			s.gme, err = grpcgcp.NewGCPMultiEndpoint(s.buildOpts(init), s.userDialOpts()...)
		}
	})
	k.Quiesce()
	s.waitSlow(c)
	if !s.plan.Twin || s.plan.Concurrent {
		s.reuseDialOpts()
	}
	s.masterCheck("NewGCPMultiEndpoint")
	s.scribbleOpts()
	s.kernelFailure()
	if s.stop || s.panicked(c, "NewGCPMultiEndpoint") {
		s.finish()
		return
	}
	wantErr := invalid(init) || (init.DialFail > 0 && s.dialN >= init.DialFail)
	switch {
	case wantErr && err == nil:
		s.vio("C16", "invalid-construction-accepted", s.kindOf(init), fmt.Sprintf("NewGCPMultiEndpoint accepted invalid options %+v", init))
	case !wantErr && err != nil && !negDur(init) && !s.slowHit:
		s.vio("C15", "valid-construction-rejected", "", fmt.Sprintf("NewGCPMultiEndpoint(%+v) = %v", init, err))
	case err != nil:
		if !wantErr {
			s.res.Count("probe:negative_duration_options_rejected", 1)
		}
		s.res.Count("fault:construction_rejected", 1)
		// a failed construction leaves no connection or goroutine behind
		s.leakCheck("failed-construction")
		s.finish()
		return
	}
	if s.stop {
		s.finish()
		return
	}
	s.accept(init)
	if s.plan.Twin && !s.plan.Concurrent {
		s.buildTwin()
		if s.stop {
			s.finish()
			return
		}
	}
	s.afterUpdate("construction")
	s.twinProbes("after construction")

	for i, o := range s.plan.Ops {
		if s.stop || k.Aborting() {
			break
		}
		s.opIdx = i
		src.Segment(i + 1)
		s.exec(o)
	}
	if !s.stop && !k.Aborting() {
		s.opIdx = len(s.plan.Ops)
		src.Segment(len(s.plan.Ops) + 1)
		s.heal()
	}
	s.finish()
}

//go:norace
func (s *sim) kindOf(o OptsSpec) string {
	switch {
	case o.BadDef:
		return "default-missing"
	case o.EmptyME > 0:
		return "empty-endpoint-list"
	case o.DialFail > 0:
		return "dial-failure"
	case negDur(o):
		return "negative-duration"
	}
	return "valid"
}

//go:norace
func (s *sim) accept(o OptsSpec) {
	s.mes = map[string]MESpec{}
	for _, me := range o.MEs {
		nm := meNames[me.Name%4]
		if old, ok := s.prevME[nm]; ok {
			// an existing MultiEndpoint keeps its timeouts; only endpoints change
			me.RMs, me.DMs = old.RMs, old.DMs
		}
		s.mes[nm] = me
	}
	s.prevME = map[string]MESpec{}
	for k, v := range s.mes {
		s.prevME[k] = v
	}
	s.def = meNames[o.Default%4]
	h := &cfgRec{mes: map[string]MESpec{}, def: s.def}
	for k, v := range s.mes {
		h.mes[k] = v
	}
	s.cfgHist = append(s.cfgHist, h)
}

// judgeConcurrent: schedule-independent routing facts for RPCs that ran while
// updates and monitors were in flight. The pool an RPC went through must belong
// to a configuration that can have been in effect during the RPC: not a pool
// closed by an update that had returned before the RPC was even invoked, and an
// endpoint of the MultiEndpoint the context selects (or of the default one) in
// one of those configurations.
//
//go:norace
func (s *sim) judgeConcurrent() {
	// no call into the object may panic, whatever it overlapped with
	for _, c := range s.concCalls {
		if c.panicked != "" && !c.reported && !s.stop {
			c.reported = true
			fn := simkit.FuncOfStack(c.stack)
			if c.name == "rpc" {
				s.vio("C16", "rpc-panic", fn, fmt.Sprintf("RPC issued while updates/monitors were running panicked in %s: %s", fn, c.panicked))
			} else {
				s.vio("C16", "panic", fn, fmt.Sprintf("%s panicked in %s: %s", c.name, fn, c.panicked))
			}
		}
	}
	for ; s.judgedTo < len(s.rpcs); s.judgedTo++ {
		r := s.rpcs[s.judgedTo]
		if !r.conc || s.stop {
			continue
		}
		s.res.Count("probe:concurrent_rpc_judged", 1)
		if r.lower != r.upper {
			s.res.Count("probe:concurrent_rpc_overlapped_update", 1)
		}
		p := r.pool
		if cb := p.closedBy; cb != nil && cb.doneSeq >= 0 && cb.doneSeq < r.ti {
			s.vio("C15", "rpc-on-pool-closed-before-invocation", "concurrent", fmt.Sprintf("RPC with name %q was invoked after the update that closed pool %s#%d had returned (updates returned by then: %d, started by the time it reached the pool: %d) and still went through that pool", r.name, p.endpoint, p.id, r.lower, r.upper))
			continue
		}
		ok := false
		var seen []string
		for j := 0; j <= r.upper && j < len(s.cfgHist) && !ok; j++ {
			c := s.cfgHist[j]
			// configuration j cannot be in effect any more when the RPC is invoked if
			// an update that began after j had returned has itself returned by then
			over := false
			for k, o := range s.cfgHist {
				if k != j && c.doneSeq >= 0 && o.startSeq > c.doneSeq && o.doneSeq >= 0 && o.doneSeq < r.ti {
					over = true
				}
			}
			if over {
				continue
			}
			me, known := c.mes[r.name]
			if !known {
				me = c.mes[c.def]
			}
			eps := s.endpointsOf(me)
			seen = append(seen, fmt.Sprint(eps))
			for _, e := range eps {
				if e == p.endpoint {
					ok = true
				}
			}
		}
		if !ok {
			s.vio("C15", "rpc-outside-multiendpoint", "concurrent", fmt.Sprintf("RPC with name %q went to %s, which is not an endpoint of the selected MultiEndpoint in any configuration that can have been in effect (#%d..#%d: %s)", r.name, p.endpoint, r.lower, r.upper, strings.Join(seen, " | ")))
		}
	}
}

//go:norace
func (s *sim) settle(o Op) {
	if s.plan.Concurrent {
		s.k.RunSteps(o.N)
	} else {
		s.k.Quiesce()
	}
	s.kernelFailure()
}

//go:norace
func (s *sim) endpointsOf(me MESpec) []string {
	var out []string
	for _, e := range me.Eps {
		out = append(out, epNames[e%epMod])
	}
	return out
}

// probe issues one RPC with the given MultiEndpoint name ("" = none) and
// returns the pool that received it.
//
//go:norace
func (s *sim) ctxFor(name string) context.Context {
	if s.ctxs == nil {
		s.ctxs = map[string]context.Context{}
	}
	if c, ok := s.ctxs[name]; ok {
		return c
	}
	ctx := context.Background()
	if name != noName {
		ctx = grpcgcp.NewMEContext(ctx, name)
	}
	s.ctxs[name] = ctx
	return ctx
}

var twinEps = []string{"t0:443", "t1:443"}

// buildTwin constructs the second instance: "default" = [t0 t1], "read" = [t1 t0].
//
//go:norace
func (s *sim) buildTwin() {
	// the second instance has a configuration of its own
	s.twinCfg = &pb.ApiConfig{ChannelPool: &pb.ChannelPoolConfig{MinSize: 5, MaxSize: 7, FallbackToReady: true, BindPickStrategy: pb.ChannelPoolConfig_ROUND_ROBIN},
		Method: []*pb.MethodConfig{{Name: []string{"/twin/Only"}, Affinity: &pb.AffinityConfig{Command: pb.AffinityConfig_BIND, AffinityKey: "name"}}}}
	twinSnap := proto.Clone(s.twinCfg).(*pb.ApiConfig)
	opts := &grpcgcp.GCPMultiEndpointOptions{
		GRPCgcpConfig: s.twinCfg,
		MultiEndpoints: map[string]*multiendpoint.MultiEndpointOptions{
			"default": {Endpoints: []string{twinEps[0], twinEps[1]}},
			"read":    {Endpoints: []string{twinEps[1], twinEps[0]}},
		},
		Default: "default",
		DialFunc: func(ctx context.Context, target string, dopts ...grpc.DialOption) (vsync.PoolConn, error) {
			s.k.Yield("dial")
			s.dialConfig(dopts, twinSnap, "second instance: ")
			p := &fakePool{s: s, endpoint: target, id: 1000 + len(s.twinPools), state: connectivity.Idle, ch: make(chan struct{}), closedCfg: -1}
			s.twinPools = kern.Push(s.twinPools, p)
			return p, nil
		},
	}
	var err error
	c := s.call("NewTwin", 1, func() { s.twin, err = grpcgcp.NewGCPMultiEndpoint(opts, s.userDialOpts()...) })
	s.k.Quiesce()
	s.kernelFailure()
	if s.stop || s.panicked(c, "NewGCPMultiEndpoint") {
		return
	}
	if err != nil || s.twin == nil {
		s.vio("C15", "valid-construction-rejected", "twin", fmt.Sprintf("second instance: NewGCPMultiEndpoint = %v", err))
		return
	}
	s.res.Count("fault:second_instance_sharing_contexts", 1)
}

// twinProbes: the application issues RPCs on the second instance with the very
// context objects it uses on the first. Each instance routes by its OWN
// MultiEndpoints: the twin's pools never leave IDLE, so its MultiEndpoints
// stay on their first endpoint.
//
//go:norace
func (s *sim) twinProbes(when string) {
	if s.twin == nil || s.stop {
		return
	}
	for _, name := range []string{noName, "default", "read", "unknown", ""} {
		want := twinEps[0]
		if name == "read" {
			want = twinEps[1]
		}
		ctx := s.ctxFor(name)
		n0 := len(s.rpcs)
		c := s.call("rpc", 0, func() { _ = s.twin.Invoke(ctx, "/svc/M", nil, nil) })
		s.k.Quiesce()
		s.kernelFailure()
		if s.stop {
			return
		}
		if c.panicked != "" {
			fn := simkit.FuncOfStack(c.stack)
			s.vio("C15", "rpc-panic-on-second-instance", fn, fmt.Sprintf("%s: RPC with name %q on a second GCPMultiEndpoint (same context object as used on the first) panicked in %s: %s", when, name, fn, c.panicked))
			return
		}
		if !c.done || len(s.rpcs) != n0+1 {
			s.vio("C15", "rpc-not-routed-once", "twin", fmt.Sprintf("%s: RPC with name %q on the second instance reached %d pools (returned=%v)", when, name, len(s.rpcs)-n0, c.done))
			return
		}
		r := s.rpcs[n0]
		own := false
		for _, p := range s.twinPools {
			if p == r.pool {
				own = true
			}
		}
		if !own || r.pool.endpoint != want {
			s.vio("C15", "second-instance-routed-by-first", "", fmt.Sprintf("%s: RPC with name %q on the second GCPMultiEndpoint went to %s#%d (own pool: %v), its MultiEndpoints say %s", when, name, r.pool.endpoint, r.pool.id, own, want))
			return
		}
		s.res.Count("probe:twin_rpc_judged", 1)
	}
}

// waitSlow: a call into the library that has not returned because a dial sleeps:
// simulated time passes (up to two minutes) until it returns.
//
//go:norace
func (s *sim) waitSlow(c *callRec) {
	for i := 0; i < 24 && !c.done && s.slowHit && !s.stop; i++ {
		s.k.Advance(5 * time.Second)
		s.k.Quiesce()
		s.kernelFailure()
	}
}

// holdRPC issues a unary call that reaches its pool and stays in flight there
// (a long-running call): updates, outages and Close() happen around it.
//
//go:norace
func (s *sim) holdRPC(name string) {
	h := &heldCall{}
	h.w.Note = "held call in flight"
	ctx := context.WithValue(s.ctxFor(name), holdKey{}, h)
	n0 := len(s.rpcs)
	h.c = s.call("rpc-held", 0, func() { _ = s.gme.Invoke(ctx, "/svc/M", nil, nil) })
	s.k.Quiesce()
	s.kernelFailure()
	if s.stop {
		return
	}
	if h.c.panicked != "" {
		fn := simkit.FuncOfStack(h.c.stack)
		s.vio("C16", "rpc-panic", fn, fmt.Sprintf("RPC with MultiEndpoint name %q panicked in %s: %s", name, fn, h.c.panicked))
		return
	}
	if len(s.rpcs) != n0+1 || h.pool == nil {
		return // did not reach a pool (judged by the ordinary calls)
	}
	s.holds = append(s.holds, h)
	s.res.Count("fault:call_in_flight_across_updates_and_close", 1)
	r := s.rpcs[n0]
	if !r.wasClosed {
		s.judge(name, r.pool, "at quiescence (call that stays in flight)", true)
	}
}

// releaseHolds lets every held call return.
//
//go:norace
func (s *sim) releaseHolds() {
	for _, h := range s.holds {
		s.k.Set(&h.w)
	}
	s.holds = nil
	s.k.Quiesce()
	s.kernelFailure()
}

//go:norace
func (s *sim) probe(name string, stream bool) (*fakePool, bool) {
	ctx := s.ctxFor(name)
	n0 := len(s.rpcs)
	c := s.call("rpc", 0, func() {
		if stream {
			_, _ = s.gme.NewStream(ctx, &grpc.StreamDesc{}, "/svc/M")
		} else {
			_ = s.gme.Invoke(ctx, "/svc/M", nil, nil)
		}
	})
	if s.solo {
		// only the RPC runs: goroutines the library started stay where they are
		if !s.k.RunOnly(c.t) && c.panicked == "" {
			s.res.Count("probe:solo_rpc_could_not_finish_alone", 1)
			s.k.Quiesce()
			s.kernelFailure()
			return nil, false
		}
	} else {
		s.k.Quiesce()
	}
	s.kernelFailure()
	if s.stop {
		return nil, false
	}
	if c.panicked != "" {
		fn := simkit.FuncOfStack(c.stack)
		s.vio("C16", "rpc-panic", fn, fmt.Sprintf("RPC with MultiEndpoint name %q panicked in %s: %s", name, fn, c.panicked))
		return nil, false
	}
	if !c.done {
		s.vio("C15", "rpc-blocked", "", fmt.Sprintf("RPC with name %q did not return (%v at %s)", name, c.t.State(), c.t.Site))
		return nil, false
	}
	if len(s.rpcs) != n0+1 {
		s.vio("C15", "rpc-not-routed-once", "", fmt.Sprintf("RPC reached %d pools", len(s.rpcs)-n0))
		return nil, false
	}
	r := s.rpcs[n0]
	if r.wasClosed {
		s.vio("C16", "rpc-on-closed-pool", "", fmt.Sprintf("RPC with name %q was sent to the closed pool of %s", name, r.pool.endpoint))
		return nil, false
	}
	return r.pool, true
}

// judge checks the routing of one RPC against the accepted configuration.
//
//go:norace
func (s *sim) judge(name string, p *fakePool, when string, exact bool) {
	sel := name
	if _, ok := s.mes[sel]; !ok || name == noName {
		sel = s.def
	}
	me := s.mes[sel]
	eps := s.endpointsOf(me)
	in := false
	for _, e := range eps {
		if e == p.endpoint {
			in = true
		}
	}
	if !in {
		s.vio("C15", "routed-outside-multiendpoint", "", fmt.Sprintf("%s: RPC with name %q (MultiEndpoint %q = %v) went to the pool of %s", when, name, sel, eps, p.endpoint))
		return
	}
	if open := s.openPool(p.endpoint); open != p {
		s.vio("C15", "routed-to-stale-pool", "", fmt.Sprintf("%s: RPC went to pool #%d of %s which is not the open pool of that endpoint", when, p.id, p.endpoint))
		return
	}
	if exact && me.RMs == 0 && me.DMs == 0 {
		for _, e := range eps {
			if op := s.openPool(e); op != nil && op.state == connectivity.Ready {
				if e != p.endpoint {
					s.vio("C15", "not-top-ready-endpoint", when, fmt.Sprintf("%s: RPC with name %q (MultiEndpoint %q = %v, no timeouts) went to %s although the pool of higher-priority %s is READY", when, name, sel, eps, p.endpoint, e))
				}
				return
			}
		}
	}
}

//go:norace
func (s *sim) routingSnapshot() (map[string]string, bool) {
	snap := map[string]string{}
	// every name of the universe, configured or not: a rejected update must not
	// have added a MultiEndpoint either
	names := append([]string{noName, "unknown"}, meNames...)
	sort.Strings(names)
	for _, n := range names {
		p, ok := s.probe(n, false)
		if !ok {
			return nil, false
		}
		snap[n] = fmt.Sprintf("%s#%d", p.endpoint, p.id)
	}
	return snap, true
}

// afterUpdate: exactly one open pool per mentioned endpoint, removed pools
// closed once, kept pools not re-dialled, routing already reflects connectivity.
//
//go:norace
func (s *sim) afterUpdate(when string) {
	want := map[string]bool{}
	for _, me := range s.mes {
		for _, e := range s.endpointsOf(me) {
			want[e] = true
		}
	}
	open := map[string]int{}
	for _, p := range s.pools {
		if p.closed == 0 {
			open[p.endpoint]++
		}
		if p.closed > 1 {
			s.res.Count("probe:pool_closed_more_than_once", 1) // sloppy, not forbidden
		}
	}
	wantList := make([]string, 0, len(want))
	for e := range want {
		wantList = append(wantList, e)
	}
	sort.Strings(wantList)
	for _, e := range wantList {
		if open[e] != 1 {
			msg := fmt.Sprintf("%s: endpoint %s has %d open pools, want 1", when, e, open[e])
			if s.rejected > 0 && open[e] == 0 {
				// a pool left behind (closed but still registered) by an earlier
				// rejected update is what the next RPC to this endpoint would use
				s.vio("C16", "rejected-update-left-closed-pool", "", msg+fmt.Sprintf(" (after %d rejected updates: RPCs to this endpoint would use a closed pool)", s.rejected))
				s.stop = false
			}
			s.vio("C15", "pool-set-mismatch", "missing", msg)
			return
		}
	}
	for e, n := range open {
		if !want[e] && n > 0 {
			s.vio("C15", "pool-set-mismatch", "obsolete-open", fmt.Sprintf("%s: pool of %s is still open although no MultiEndpoint mentions it", when, e))
			s.stop = false // the run goes on: whether Close() still releases that pool is C16's question
			return
		}
	}
	// every MultiEndpoint already reflects the connectivity of the kept pools
	// (before any monitor ran): judged by real RPCs
	names := []string{noName}
	for n := range s.mes {
		names = append(names, n)
	}
	sort.Strings(names)
	for _, n := range names {
		if s.stop {
			return
		}
		if p, ok := s.probe(n, false); ok {
			s.judge(n, p, "right after "+when, true)
		}
	}
	if !s.plan.Concurrent && !s.stop {
		s.monitorCheck(when)
	}
}

// monitorCheck: one live monitor per open pool, none for closed pools.
//
//go:norace
func (s *sim) monitorCheck(when string) {
	s.k.Quiesce()
	live := 0
	for _, t := range s.libTasks {
		if t.State() != kern.Done {
			live++
		}
	}
	open := 0
	for _, p := range s.pools {
		if p.closed == 0 {
			open++
		}
	}
	// "Monitors of closed pools are stopped": no more library goroutines per open
	// pool than right after construction (the design - one per pool, several per
	// pool, one shared - is the implementation's business).
	if s.monBase == 0 && open > 0 {
		s.monBase = float64(live) / float64(open)
	}
	if float64(live) > s.monBase*float64(open)+0.999 {
		s.vio("C15", "monitor-not-stopped", "", fmt.Sprintf("%s: %d library goroutines alive for %d open pools (%.1f per pool after construction): a monitor of a closed pool was not stopped", when, live, open, s.monBase))
	}
}

//go:norace
func (s *sim) leakCheck(when string) {
	s.k.Quiesce()
	for _, p := range s.pools {
		if p.closed == 0 {
			s.vio("C16", "pool-leak", when, fmt.Sprintf("%s: the pool dialled for %s was never closed", when, p.endpoint))
			return
		}
	}
	for _, t := range s.libTasks {
		if t.State() != kern.Done {
			s.vio("C16", "goroutine-leak", when, fmt.Sprintf("%s: a goroutine started by the object is still alive (%v at %s)", when, t.State(), t.Site))
			return
		}
	}
}

// updStart / updEnd: bookkeeping of a burst update, on its task (closures do
// not inherit go:norace; harness state is only touched in norace functions).
//
//go:norace
func (s *sim) updStart(rec **cfgRec, idx int) {
	s.seq++
	(*rec).startSeq = s.seq
	s.curUpd = idx
}

//go:norace
func (s *sim) updEnd(rec **cfgRec, idx int) {
	if idx > s.updDone {
		s.updDone = idx
	}
	s.seq++
	(*rec).doneSeq = s.seq
}

//go:norace
func (s *sim) exec(o Op) {
	switch o.K {
	case OpUpdate:
		sp := *o.Opts
		if s.plan.Concurrent {
			// concurrent: valid updates only, racing with RPCs and monitors
			sp.BadDef, sp.EmptyME, sp.DialFail = false, 0, 0
			s.dialN, s.dialFail = 0, 0
			idx := len(s.cfgHist)
			group := 1 // updates are serialized by the application: the model follows their order
			if o.Par {
				group = 0 // ... except this one, issued from a goroutine of its own
				s.parUsed = true
				s.res.Count("fault:update_concurrent_with_updates", 1)
			}
			var rec *cfgRec
			opts := s.buildOpts(sp)
			c := s.call("Update", group, func() {
				s.updStart(&rec, idx)
				_ = s.gme.UpdateMultiEndpoints(opts)
				s.updEnd(&rec, idx)
			})
			s.concCalls = append(s.concCalls, c)
			s.accept(sp)
			rec = s.cfgHist[idx]
			rec.startSeq, rec.doneSeq, rec.task = -1, -1, c.t
			spc := sp
			s.lastSpec = &spc
			s.res.Count("op:update", 1)
			s.settle(o)
			return
		}
		before, ok := s.routingSnapshot()
		if !ok {
			return
		}
		t0 := s.k.Elapsed()
		dialsBefore := len(s.dialLog)
		openBefore := map[string]bool{}
		for _, p := range s.pools {
			if p.closed == 0 {
				openBefore[p.endpoint] = true
			}
		}
		s.dialN, s.dialFail = 0, sp.DialFail
		var err error
		c := s.call("Update", 1, func() { err = s.gme.UpdateMultiEndpoints(s.buildOpts(sp)) })
		// Only the update runs until it returns: what it leaves to goroutines it
		// started has not happened yet when the "at return" clause is judged.
		alone := s.k.RunOnly(c.t)
		if !alone {
			s.k.Quiesce()
		}
		slowBefore := s.slowHit
		s.waitSlow(c)
		slowNow := s.slowHit && (!slowBefore || !c.done)
		if c.done {
			s.masterCheck("UpdateMultiEndpoints")
			s.scribbleOpts()
		}
		s.kernelFailure()
		if s.stop || s.panicked(c, "UpdateMultiEndpoints") {
			return
		}
		if !c.done {
			s.vio("C16", "update-blocked", "", "UpdateMultiEndpoints did not return")
			return
		}
		s.res.Count("op:update", 1)
		wantErr := invalid(sp) || (sp.DialFail > 0 && s.dialN >= sp.DialFail)
		if invalid(sp) || sp.DialFail > 0 {
			s.res.Count("fault:update_"+s.kindOf(sp), 1)
		}
		if wantErr && err == nil {
			s.vio("C16", "invalid-update-accepted", s.kindOf(sp), fmt.Sprintf("UpdateMultiEndpoints accepted invalid options (%s)", s.kindOf(sp)))
			return
		}
		if !wantErr && err != nil {
			if !negDur(sp) && !slowNow && !(s.slowHit && !slowBefore) {
				s.vio("C15", "valid-update-rejected", "", fmt.Sprintf("UpdateMultiEndpoints = %v", err))
				return
			}
			s.res.Count("probe:negative_duration_options_rejected", 1)
		}
		if err != nil {
			s.rejected++
			// rejected: every RPC is routed exactly as before
			if s.k.Elapsed() != t0 {
				// the (slow) dials of this update took simulated time: timers of the
				// configuration in force may have moved routing meanwhile, so each name
				// is judged against that configuration instead of the old snapshot
				names := append([]string{noName, "unknown"}, meNames...)
				sort.Strings(names)
				for _, n := range names {
					if p, ok := s.probe(n, false); ok && !s.stop {
						s.judge(n, p, "after the rejected update whose dials took time", true)
					}
				}
				s.res.Count("probe:rejected_update_routing_judged_after_slow_dial", 1)
				return
			}
			after, ok := s.routingSnapshot()
			if !ok {
				return
			}
			for n, b := range before {
				if after[n] != b {
					s.vio("C16", "rejected-update-changed-routing", s.kindOf(sp), fmt.Sprintf("after the rejected update (%s) an RPC with name %q goes to %s, before it went to %s", s.kindOf(sp), n, after[n], b))
					return
				}
			}
			s.res.Count("probe:rejected_update_routing_compared", 1)
			return
		}
		s.accept(sp)
		if alone {
			// "every MultiEndpoint already reflects the connectivity of the kept
			// pools when the call returns": real RPCs, nothing else released
			s.solo = true
			names := []string{noName, "unknown"}
			for n := range s.mes {
				names = append(names, n)
			}
			sort.Strings(names)
			for _, n := range names {
				if s.stop {
					break
				}
				if p, ok := s.probe(n, false); ok {
					s.judge(n, p, "when the update returned", true)
					s.res.Count("probe:routing_judged_at_update_return", 1)
				}
			}
			s.solo = false
			if s.stop {
				return
			}
		}
		s.k.Quiesce()
		s.kernelFailure()
		if s.stop {
			return
		}
		for _, d := range s.dialLog[dialsBefore:] {
			if openBefore[d] {
				s.vio("C15", "kept-pool-redialled", "", fmt.Sprintf("endpoint %s already had an open pool but was dialled again", d))
				return
			}
		}
		s.afterUpdate("update")
		s.twinProbes("after an update of the first instance")
	case OpPool:
		ep := epNames[o.A%epMod]
		p := s.openPool(ep)
		if p == nil {
			return
		}
		st := []connectivity.State{connectivity.Ready, connectivity.TransientFailure, connectivity.Connecting, connectivity.Idle}[o.B%4]
		if st != connectivity.Ready && p.state == connectivity.Ready {
			s.res.Count("fault:endpoint_outage", 1)
		}
		if st == connectivity.Ready && p.state != connectivity.Ready {
			s.res.Count("fault:endpoint_recovery", 1)
		}
		p.setState(st)
		s.settle(o)
	case OpRPC:
		name := noName
		switch o.A {
		case 1, 2, 3:
			name = meNames[o.A-1]
		case 4:
			name = "unknown"
			s.res.Count("fault:unknown_multiendpoint_name", 1)
		case 5:
			name = "" // explicitly names the MultiEndpoint called ""
		}
		s.res.Count("op:rpc", 1)
		if s.plan.Concurrent {
			s.seq++
			ctx := context.WithValue(context.Background(), lowKey{}, rpcInfo{lower: s.updDone, ti: s.seq})
			if name != noName {
				ctx = grpcgcp.NewMEContext(ctx, name)
			}
			s.concCalls = append(s.concCalls, s.call("rpc", 0, func() { _ = s.gme.Invoke(ctx, "/svc/M", nil, nil) }))
			s.settle(o)
			s.judgeConcurrent()
			for _, r := range s.rpcs {
				if r.wasClosed {
					// under concurrency an RPC may legitimately race with the closing of its pool
					s.res.Count("probe:rpc_raced_with_close", 1)
				}
			}
			return
		}
		if o.B == 2 && len(s.holds) < 3 {
			s.holdRPC(name)
			return
		}
		if p, ok := s.probe(name, o.B == 1); ok {
			s.judge(name, p, "at quiescence", true)
		}
	case OpAdvance:
		s.k.Advance(time.Duration(o.A) * time.Millisecond)
		s.kernelFailure()
	case OpConfig:
		s.configCheck()
	case OpSteps:
		s.k.RunSteps(o.A)
		s.kernelFailure()
	}
}

// configCheck: GCPConfig() returns an equal deep copy; mutating it or the
// caller's object has no effect (C17).
//
//go:norace
func (s *sim) configCheck() {
	// everything that touches the returned message runs on the calling task (the
	// scheduler goroutine must not read what a task produced with instrumented code)
	verdict := ""
	c := s.call("GCPConfig", 0, func() {
		got := s.gme.GCPConfig()
		if !proto.Equal(got, s.cfgSnap) {
			verdict = "not-equal"
			return
		}
		if got != nil {
			if got.ChannelPool == nil {
				got.ChannelPool = &pb.ChannelPoolConfig{}
			}
			got.ChannelPool.MaxSize = 99
			got.Method = nil
		}
		if again := s.gme.GCPConfig(); !proto.Equal(again, s.cfgSnap) {
			verdict = "aliased-returned"
			return
		}
	})
	s.k.Quiesce()
	if s.panicked(c, "GCPConfig") {
		return
	}
	s.res.Count("op:gcpconfig", 1)
	switch verdict {
	case "not-equal":
		s.vio("C17", "gcpconfig-not-equal", "", "GCPConfig() is not equal to the configuration the object was created with")
		return
	case "aliased-returned":
		s.vio("C17", "gcpconfig-aliased", "returned", "mutating the value returned by GCPConfig() changed the object's configuration")
		return
	}
	// the caller keeps mutating its own object
	if s.cfg == nil {
		return
	}
	hadPool := s.cfg.ChannelPool != nil
	if !hadPool {
		s.cfg.ChannelPool = &pb.ChannelPoolConfig{}
	}
	s.cfg.ChannelPool.MinSize++
	c = s.call("GCPConfig", 0, func() {
		if again := s.gme.GCPConfig(); !proto.Equal(again, s.cfgSnap) {
			verdict = "aliased-caller"
		}
	})
	s.k.Quiesce()
	s.cfg.ChannelPool.MinSize--
	if !hadPool {
		s.cfg.ChannelPool = nil
	}
	if s.panicked(c, "GCPConfig") {
		return
	}
	if verdict == "aliased-caller" {
		s.vio("C17", "gcpconfig-aliased", "caller", "mutating the caller's configuration object changed GCPConfig()")
	}
	s.res.Count("fault:caller_mutates_config", 1)
}

//go:norace
func (s *sim) heal() {
	s.k.Quiesce()
	s.kernelFailure()
	if s.stop {
		return
	}
	s.judgeConcurrent()
	if s.stop {
		return
	}
	if s.plan.Concurrent && s.parUsed && s.lastSpec != nil {
		// updates overlapped each other: which one was applied last is the
		// scheduler's choice. One more (serialized) update settles the
		// configuration before the convergence clauses are judged.
		sp := *s.lastSpec
		opts := s.buildOpts(sp)
		c := s.call("Update", 1, func() { _ = s.gme.UpdateMultiEndpoints(opts) })
		s.k.Quiesce()
		s.kernelFailure()
		if s.stop || s.panicked(c, "UpdateMultiEndpoints") {
			return
		}
		s.accept(sp)
		s.res.Count("probe:settling_update_after_concurrent_updates", 1)
	}
	// bounded liveness / convergence: faults stop, all timers drain, then routing
	// follows the pools' connectivity for every MultiEndpoint
	for i := 0; i < 20 && s.k.PendingOneShot() > 0; i++ {
		s.k.Advance(100 * time.Millisecond)
	}
	s.k.Quiesce()
	s.kernelFailure()
	if s.stop {
		return
	}
	names := []string{noName, "unknown"}
	for n := range s.mes {
		names = append(names, n)
	}
	sort.Strings(names)
	for _, n := range names {
		if s.stop {
			return
		}
		p, ok := s.probe(n, false)
		if !ok {
			return
		}
		s.judge(n, p, "after faults stopped", false)
		// convergence also for MultiEndpoints with timeouts
		sel := n
		if _, ok := s.mes[sel]; !ok || n == noName {
			sel = s.def
		}
		me := s.mes[sel]
		for _, e := range s.endpointsOf(me) {
			if op := s.openPool(e); op != nil && op.state == connectivity.Ready {
				if e != p.endpoint {
					s.vio("C15", "routing-does-not-follow-connectivity", "", fmt.Sprintf("after faults stopped and all timers fired, RPC with name %q (MultiEndpoint %q = %v) goes to %s although the pool of %s is READY", n, sel, s.endpointsOf(me), p.endpoint, e))
				}
				break
			}
		}
	}
	if s.stop {
		return
	}
	s.res.Count("probe:heal_reached", 1)
	if !proto.Equal(s.cfg, s.cfgSnap) {
		s.vio("C17", "caller-config-mutated", "", "GCPMultiEndpoint changed the caller's GRPCgcpConfig object")
		return
	}
	s.twinProbes("after faults stopped")
	if s.stop {
		return
	}
	if s.twin != nil {
		ct := s.call("CloseTwin", 1, func() { _ = s.twin.Close() })
		s.k.Quiesce()
		s.kernelFailure()
		if s.stop || s.panicked(ct, "Close") {
			return
		}
		for _, p := range s.twinPools {
			if p.closed == 0 {
				s.vio("C16", "pool-leak", "twin-after-close", fmt.Sprintf("second instance: the pool dialled for %s was never closed", p.endpoint))
				return
			}
		}
		for _, t := range s.twinTasks {
			if t.State() != kern.Done {
				s.vio("C16", "goroutine-leak", "twin-after-close", fmt.Sprintf("second instance: a goroutine it started is still alive after Close (%v at %s)", t.State(), t.Site))
				return
			}
		}
	}
	if s.slowHit {
		// a dial that outlived the call that started it has returned by now
		s.k.Advance(70 * time.Second)
		s.k.Quiesce()
		s.kernelFailure()
		if s.stop {
			return
		}
	}
	// Close releases everything - also when the application has meanwhile closed
	// some of the connections it had dialled itself (their Close() then fails)
	if s.plan.OwnerClose && !s.plan.Concurrent {
		n := 0
		for i, p := range s.pools {
			if p.closed == 0 && !p.ownerClosed && (i+len(s.rpcs))%2 == 0 {
				p.ownerClose()
				n++
			}
		}
		if n > 0 {
			s.res.Count("fault:application_closed_a_pool_connection_itself", n)
			s.k.Quiesce()
			s.kernelFailure()
			if s.stop {
				return
			}
		}
	}
	var err error
	c := s.call("Close", 1, func() { err = s.gme.Close() })
	s.k.Quiesce()
	s.kernelFailure()
	if s.stop || s.panicked(c, "Close") {
		return
	}
	_ = err
	s.closedAll = true
	s.leakCheck("after-close") // judged with the held calls still in flight
	s.releaseHolds()
}

//go:norace
func (s *sim) finish() {
	k := s.k
	// release monitors blocked on fake pools
	for _, p := range s.pools {
		if p.closed == 0 {
			p.state = connectivity.Shutdown
			close(p.ch)
			p.ch = make(chan struct{})
		}
	}
	k.Shutdown()
	s.res.Count("probe:dial_config_judged", s.nDialCfgJudged)
	s.res.Count("probe:dial_config_not_readable", s.nDialCfgUnknown)
	s.res.Steps = int(k.Steps())
	s.res.SimNanos = int64(k.Elapsed())
	s.res.Fingerprint = k.Fingerprint
	s.res.Switches, s.res.SwitchInOp = k.Switches, k.SwitchInOp
	s.res.Log = k.Log
	s.res.Count("ops", len(s.plan.Ops))
	s.res.Count("fault:dial_failure", s.nDialFail)
	var names []string
	for n := range s.mes {
		names = append(names, n)
	}
	sort.Strings(names)
	h := uint64(1469598103934665603)
	for _, c := range strings.Join(names, ",") + fmt.Sprint(len(s.pools), len(s.rpcs)) {
		h ^= uint64(c)
		h *= 1099511628211
	}
	s.res.States = append(s.res.States, h)
}

// hint gives the next spawned task a schedule-independent key derived from the
// current operation's stable id, so that recorded scheduling decisions survive
// the removal of other operations during shrinking.
//
//go:norace
//go:norace
func (s *sim) hint() {
	id := uint64(1000000 + s.opIdx + 1)
	if s.opIdx >= 0 && s.opIdx < len(s.plan.Ops) && s.plan.Ops[s.opIdx].ID != 0 {
		id = uint64(s.plan.Ops[s.opIdx].ID)
	}
	if s.hintOp != s.opIdx {
		s.hintOp, s.hintN = s.opIdx, 0
	}
	s.hintN++
	s.k.KeyHint = kern.MixKey(id, s.hintN)
}

//go:norace
func runtimeStack(b []byte) int { return runtime.Stack(b, false) }

// ---------------------------------------------------------------- engine

type Engine struct{}

//go:norace
func (Engine) Name() string { return "gmesim" }

//go:norace
func (Engine) Generate(r *rand.Rand, profile string, concurrent bool, avoid map[string]bool) simkit.Plan {
	return Generate(r, profile, concurrent, avoid)
}

//go:norace
func (Engine) Decode(b []byte) (simkit.Plan, error) {
	p := &Plan{}
	return p, json.Unmarshal(b, p)
}

//go:norace
func (Engine) Strategy(p simkit.Plan, r *rand.Rand) simkit.Strategy {
	pl := p.(*Plan)
	if !pl.Concurrent || pl.Strategy == 0 {
		return &simkit.RandomWalk{R: simkit.NewSM64(r.Uint64()), Stick: 0.6, Mix: 0.6}
	}
	if pl.Strategy >= 4 {
		return simkit.NewStall(simkit.NewSM64(r.Uint64()), 4+len(pl.Ops), 28, 0.7, 0.6)
	}
	return simkit.NewPCT(simkit.NewSM64(r.Uint64()), pl.Strategy, 60+len(pl.Ops)*10, 0.6)
}

//go:norace
func (Engine) Run(t *testing.T, p simkit.Plan, src *simkit.Source, log bool) *simkit.Result {
	return Run(t, p.(*Plan), src, log)
}

//go:norace
func (Engine) NOps(p simkit.Plan) int { return len(p.(*Plan).Ops) }

//go:norace
func (Engine) Remove(p simkit.Plan, i, j int) simkit.Plan {
	c := p.(*Plan).Clone()
	c.Ops = append(c.Ops[:i], c.Ops[j:]...)
	return c
}

//go:norace
func (Engine) Simplify(p simkit.Plan) []simkit.Plan {
	pl := p.(*Plan)
	var out []simkit.Plan
	add := func(f func(c *Plan) bool) {
		c := pl.Clone()
		if f(c) {
			out = append(out, c)
		}
	}
	add(func(c *Plan) bool { ch := c.Concurrent; c.Concurrent = false; return ch })
	simplifyOpts := func(get func(c *Plan) *OptsSpec) {
		o := get(pl)
		if o == nil {
			return
		}
		if len(o.MEs) > 1 {
			for i := range o.MEs {
				i := i
				add(func(c *Plan) bool {
					x := get(c)
					if x.Default == x.MEs[i].Name {
						return false
					}
					x.MEs = append(x.MEs[:i], x.MEs[i+1:]...)
					return true
				})
			}
		}
		for i, me := range o.MEs {
			i := i
			if len(me.Eps) > 1 {
				add(func(c *Plan) bool { x := get(c); x.MEs[i].Eps = x.MEs[i].Eps[:len(x.MEs[i].Eps)-1]; return true })
			}
			if me.RMs != 0 || me.DMs != 0 {
				add(func(c *Plan) bool { x := get(c); x.MEs[i].RMs, x.MEs[i].DMs = 0, 0; return true })
			}
		}
	}
	simplifyOpts(func(c *Plan) *OptsSpec { return &c.Init })
	for i, o := range pl.Ops {
		i := i
		if o.K == OpUpdate {
			simplifyOpts(func(c *Plan) *OptsSpec { return c.Ops[i].Opts })
		}
		if o.N != 0 {
			add(func(c *Plan) bool { c.Ops[i].N = 0; return true })
		}
	}
	return out
}

//go:norace
func (Engine) Relevant(res *simkit.Result, prop string) bool {
	switch prop {
	case "C16":
		return res.Counters["fault:update_default-missing"]+res.Counters["fault:update_empty-endpoint-list"]+res.Counters["fault:update_dial-failure"]+res.Counters["fault:construction_rejected"]+res.Counters["probe:heal_reached"] > 0
	case "C17":
		return res.Counters["op:gcpconfig"]+res.Counters["probe:heal_reached"] > 0
	}
	return res.Counters["op:rpc"]+res.Counters["op:update"] > 0
}
