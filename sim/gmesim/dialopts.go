package gmesim

import (
	"reflect"
	"unsafe"

	"google.golang.org/grpc"
)

// defaultServiceConfigOf applies dial options to a zero value of grpc's
// (unexported) dialOptions struct and returns the default service config JSON
// they set, the way grpc.Dial would see it. grpc.DialOption values are opaque;
// the pinned grpc version implements every option this library and the harness
// use as *funcDialOption{f func(*dialOptions)}. Anything else (or a changed
// layout) yields ok=false and the caller does not judge.
//
//go:norace
func defaultServiceConfigOf(dopts []grpc.DialOption) (js string, ok bool) {
	defer func() {
		if recover() != nil {
			js, ok = "", false
		}
	}()
	var do reflect.Value
	for _, o := range dopts {
		v := reflect.ValueOf(o)
		if v.Kind() != reflect.Ptr || v.Elem().Kind() != reflect.Struct || v.Elem().NumField() != 1 {
			return "", false
		}
		f := v.Elem().Field(0)
		if f.Kind() != reflect.Func || f.Type().NumIn() != 1 || f.Type().In(0).Kind() != reflect.Ptr {
			return "", false
		}
		if !do.IsValid() {
			do = reflect.New(f.Type().In(0).Elem())
		}
		fn := reflect.NewAt(f.Type(), unsafe.Pointer(f.UnsafeAddr())).Elem()
		fn.Call([]reflect.Value{do})
	}
	if !do.IsValid() {
		return "", len(dopts) == 0 // no options at all: nothing unreadable, and no service config
	}
	fld := do.Elem().FieldByName("defaultServiceConfigRawJSON")
	if !fld.IsValid() || fld.Kind() != reflect.Ptr || fld.Type().Elem().Kind() != reflect.String {
		return "", false
	}
	p := reflect.NewAt(fld.Type(), unsafe.Pointer(fld.UnsafeAddr())).Elem()
	lastResolverSCOff = resolverSCUnknown
	if d := do.Elem().FieldByName("disableServiceConfig"); d.IsValid() && d.Kind() == reflect.Bool {
		lastResolverSCOff = resolverSCOn
		if d.Bool() {
			lastResolverSCOff = resolverSCOff
		}
	}
	if p.IsNil() {
		return "", true
	}
	return p.Elem().String(), true
}

// Whether the option list decoded last also switches off service configs
// delivered by the resolver (grpc.WithDisableServiceConfig): a default service
// config is only what the channel runs with when the resolver brings none.
const (
	resolverSCUnknown = iota
	resolverSCOn
	resolverSCOff
)

var lastResolverSCOff int
