package gmesim

import (
	"testing"

	"google.golang.org/grpc"
)

func TestDefaultServiceConfigOf(t *testing.T) {
	js, ok := defaultServiceConfigOf([]grpc.DialOption{grpc.WithUserAgent("x"), grpc.WithDisableServiceConfig(), grpc.WithDefaultServiceConfig(`{"a":1}`), grpc.WithChainUnaryInterceptor(nil)})
	if !ok || js != `{"a":1}` {
		t.Fatalf("got %q %v", js, ok)
	}
	js, ok = defaultServiceConfigOf([]grpc.DialOption{grpc.WithUserAgent("x")})
	if !ok || js != "" {
		t.Fatalf("got %q %v", js, ok)
	}
}
