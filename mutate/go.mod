module verif.local/mutate

go 1.21
