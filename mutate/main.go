// Command mutate enumerates and applies small mechanical mutations of one Go
// source file (standard library only). It is used by scripts/mutation_sweep.sh
// to measure which mechanical changes of grpc-gcp-go the checks notice.
//
//	mutate list  <file>            one line per mutation: index, line, kind, description
//	mutate apply <file> <index>    prints the mutated file
package main

import (
	"bytes"
	"fmt"
	"go/ast"
	"go/parser"
	"go/printer"
	"go/token"
	"os"
	"strconv"
	"strings"
)

type mutation struct {
	line  int
	kind  string
	desc  string
	apply func()
}

var flips = map[token.Token]token.Token{
	token.LSS: token.LEQ, token.LEQ: token.LSS, token.GTR: token.GEQ, token.GEQ: token.GTR,
	token.EQL: token.NEQ, token.NEQ: token.EQL, token.LAND: token.LOR, token.LOR: token.LAND,
	token.ADD: token.SUB, token.SUB: token.ADD,
}

func isLogCall(e ast.Expr) bool {
	var b bytes.Buffer
	printer.Fprint(&b, token.NewFileSet(), e)
	s := b.String()
	return strings.Contains(s, "log.") || strings.Contains(s, "grpclog.") || strings.Contains(s, ".log.") || strings.HasPrefix(s, "fmt.")
}

func src(fset *token.FileSet, n ast.Node) string {
	var b bytes.Buffer
	printer.Fprint(&b, fset, n)
	s := strings.Join(strings.Fields(b.String()), " ")
	if len(s) > 70 {
		s = s[:70] + "..."
	}
	return s
}

func collect(fset *token.FileSet, f *ast.File) []mutation {
	var ms []mutation
	add := func(pos token.Pos, kind, desc string, fn func()) {
		ms = append(ms, mutation{fset.Position(pos).Line, kind, desc, fn})
	}
	inLogGuard := 0
	var walk func(n ast.Node)
	walkList := func(list *[]ast.Stmt) {
		for i := range *list {
			i := i
			st := (*list)[i]
			switch s := st.(type) {
			case *ast.ExprStmt:
				if !isLogCall(s.X) {
					add(s.Pos(), "del-call", src(fset, s), func() { (*list)[i] = &ast.EmptyStmt{} })
				}
			case *ast.IncDecStmt:
				add(s.Pos(), "del-incdec", src(fset, s), func() { (*list)[i] = &ast.EmptyStmt{} })
			case *ast.AssignStmt:
				if s.Tok != token.DEFINE {
					add(s.Pos(), "del-assign", src(fset, s), func() { (*list)[i] = &ast.EmptyStmt{} })
				}
			case *ast.DeferStmt:
				add(s.Pos(), "del-defer", src(fset, s), func() { (*list)[i] = &ast.EmptyStmt{} })
			case *ast.GoStmt:
				add(s.Pos(), "go-to-call", src(fset, s), func() { (*list)[i] = &ast.ExprStmt{X: s.Call} })
			case *ast.ReturnStmt:
				if len(s.Results) == 0 {
					add(s.Pos(), "del-return", "return", func() { (*list)[i] = &ast.EmptyStmt{} })
				}
			case *ast.BranchStmt:
				if s.Tok == token.CONTINUE || s.Tok == token.BREAK {
					add(s.Pos(), "del-branch", s.Tok.String(), func() { (*list)[i] = &ast.EmptyStmt{} })
				}
			}
			walk(st)
		}
	}
	walk = func(n ast.Node) {
		if n == nil {
			return
		}
		switch x := n.(type) {
		case *ast.BlockStmt:
			walkList(&x.List)
			return
		case *ast.CaseClause:
			for _, e := range x.List {
				walk(e)
			}
			walkList(&x.Body)
			return
		case *ast.CommClause:
			walk(x.Comm)
			walkList(&x.Body)
			return
		case *ast.IfStmt:
			guard := isLogCall(x.Cond)
			if !guard {
				c := x.Cond
				add(x.Pos(), "negate-if", "if "+src(fset, c), func() { x.Cond = &ast.UnaryExpr{Op: token.NOT, X: &ast.ParenExpr{X: c}} })
			}
			walk(x.Init)
			if !guard {
				walk(x.Cond)
			} else {
				inLogGuard++
			}
			walk(x.Body)
			if guard {
				inLogGuard--
			}
			walk(x.Else)
			return
		case *ast.BinaryExpr:
			if to, ok := flips[x.Op]; ok && inLogGuard == 0 {
				str := false
				if x.Op == token.ADD {
					for _, e := range []ast.Expr{x.X, x.Y} {
						if l, ok := e.(*ast.BasicLit); ok && l.Kind == token.STRING {
							str = true
						}
					}
				}
				if !str {
					from := x.Op
					add(x.OpPos, "op", fmt.Sprintf("%s: %s -> %s", src(fset, x), from, to), func() { x.Op = to })
				}
			}
		case *ast.BasicLit:
			if x.Kind == token.INT && inLogGuard == 0 {
				if v, err := strconv.Atoi(x.Value); err == nil {
					old := x.Value
					add(x.Pos(), "int", fmt.Sprintf("%s -> %d", old, v+1), func() { x.Value = strconv.Itoa(v + 1) })
				}
			}
		case *ast.CallExpr:
			if isLogCall(x.Fun) {
				return
			}
			if sel, ok := x.Fun.(*ast.SelectorExpr); ok && inLogGuard == 0 {
				swap := map[string]string{"RLock": "Lock", "RUnlock": "Unlock", "Broadcast": "Signal"}
				if to, ok := swap[sel.Sel.Name]; ok && (sel.Sel.Name == "Broadcast") {
					from := sel.Sel.Name
					add(x.Pos(), "swap-call", from+" -> "+to, func() { sel.Sel.Name = to })
				}
			}
		}
		// generic descent
		ast.Inspect(n, func(c ast.Node) bool {
			if c == n {
				return true
			}
			if c != nil {
				walk(c)
			}
			return false
		})
	}
	for _, d := range f.Decls {
		if fd, ok := d.(*ast.FuncDecl); ok && fd.Body != nil {
			walk(fd.Body)
		}
	}
	return ms
}

func main() {
	if len(os.Args) < 3 {
		fmt.Fprintln(os.Stderr, "usage: mutate list <file> | mutate apply <file> <index>")
		os.Exit(2)
	}
	fset := token.NewFileSet()
	f, err := parser.ParseFile(fset, os.Args[2], nil, parser.ParseComments)
	if err != nil {
		fmt.Fprintln(os.Stderr, err)
		os.Exit(2)
	}
	ms := collect(fset, f)
	switch os.Args[1] {
	case "list":
		for i, m := range ms {
			fmt.Printf("%d\t%d\t%s\t%s\n", i, m.line, m.kind, m.desc)
		}
	case "apply":
		i, _ := strconv.Atoi(os.Args[3])
		if i < 0 || i >= len(ms) {
			os.Exit(2)
		}
		ms[i].apply()
		if err := printer.Fprint(os.Stdout, fset, f); err != nil {
			os.Exit(2)
		}
	}
}
